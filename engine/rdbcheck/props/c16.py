"""C16 — a torn final write costs at most the unacknowledged tail."""
from . import common as K
from ..rules import sites_reaching


def run(P, R, L):
    R.clause("GRD-6", "a partial header / partial payload maps to end-of-log, so open proceeds past a torn tail")
    K.grd6(P, R, L)
    R.clause("TS-1", "bytes of a torn multi-fragment record are never merged with records appended after recovery (log reuse appends "
             "after whatever is there)")
    K.ts1(P, R, L)
    # the reuse paths really do append after existing bytes: LogWriter::new(.., true) in recover_wal_records and maybe_reuse_manifest
    R.clause("OWN-7", "both log-reuse paths open the existing file with LogWriter::new(.., is_appending = true) and are taken only when "
             "reuse_log_files is set")
    for fn in ("db::DB::recover_wal_records", "versioning::version_set::VersionSet::maybe_reuse_manifest"):
        b = P.body(fn)
        if b is None:
            R.missing_anchor("OWN-7", fn)
            continue
        R.analysed(b)
        nw = [c for c in K.normal_sites(b, "logs::LogWriter::new")]
        app = [c for c in nw if c.args[2]["k"] == "const" and c.args[2].get("val") == "1"]
        ru = [c for c in b.calls() if (c.name or "").endswith("reuse_log_files") and not b.is_cleanup(c.bb)]
        from ..rules import bool_tests
        edges = []
        for r in ru:
            for t in bool_tests(b, r.dest["l"]):
                edges += t.ok_edges()
        ok = bool(app) and bool(edges) and all(b.must_pass(a.bb, through_edges=edges) for a in app)
        R.check("OWN-7", fn + "|append-mode-only-under-reuse", ok, K.where(b),
                "LogWriter::new(.., true) is reached only over the true edge of options.reuse_log_files()", "append sites %d" % len(app))
    R.clause("GRD-11", "a log re-opened for appending continues at block offset len % BLOCK_SIZE for every non-empty file; writer and reader "
             "use the same trailer test")
    K.grd11_reopen_offset(P, R, L)
    R.clause("GRD-12", "a WAL / manifest is re-opened for appending only if the reader consumed it completely (no append after a torn tail)")
    K.grd12_reuse_only_complete_logs(P, R, L)
    K.grd12_cursor_counts_complete_reads(P, R, L)
    K.grd12_fully_consumed_is_exact(P, R, L)
    # everywhere else a log is created fresh (truncating): a new WAL / a new manifest never inherits stale bytes
    allowed = {"db::DB::recover_wal_records", "versioning::version_set::VersionSet::maybe_reuse_manifest"}
    n = 0
    for c in P.callers_of("logs::LogWriter::new"):
        if c.body.is_cleanup(c.bb) or len(c.args) < 3:
            continue
        n += 1
        a = c.args[2]
        val = a.get("val") if a["k"] == "const" else "nonconst"
        if c.body.path in allowed:
            ok = True
        else:
            ok = val == "0"
        R.check("OWN-7", "%s|log-create-mode" % c.body.path, ok, c.where(),
                "outside the two reuse paths every LogWriter::new truncates (is_appending = false)", "is_appending=%s" % val)
    R.floor("OWN-7", "LogWriter::new call sites", n, 5)
    R.clause("ORD-5", "a torn first edit of a freshly created manifest cannot strand the database: CURRENT is switched only after that edit was appended")
    from .c02 import ord5_manifest_before_current
    ord5_manifest_before_current(P, R, L)
    R.clause("GRD-18", "short reads are noticed: outside the file-system layer every read is read_exact or has its byte count compared with the expected length")
    K.grd18_short_reads(P, R, L)
    R.clause("ORD-4", "CURRENT is replaced by writing a temp file and renaming it: a torn pointer write never leaves a truncated CURRENT behind")
    from .c02 import ord4_current_switch
    ord4_current_switch(P, R, L)
    K.bundle_recovery(P, R, L)
    R.not_decided += ["offset arithmetic of LogWriter::new(is_appending = true)", "records appended inside a torn block"]
