"""Rules written in round 12 (third blind-spot review: bodies no rule had looked at + the round-12 independent seeded changes).
Same conventions as props/common.py: anchors are resolved definitions, keys carry no line numbers, floors are hand-counted on
the reviewed tree."""
from ..rules import (bool_tests, comparisons, field_stores, field_reads, result_tests, option_tests, switch_target)
from ..dataflow import origins, roots
from .common import where


def _last(name):
    return (name or "").rsplit("::", 1)[-1]


ADAPTERS = ("map", "cloned", "copied", "unwrap", "expect", "as_ref", "clone", "new", "get_value", "deref", "read", "to_owned",
            "from", "into")


def follow(b, x, through=ADAPTERS, depth=6):
    """origins of an operand / place, looking through value-preserving adapters (Option::map(.., clone), Box::new, ...)"""
    out = []
    for o in origins(b, x):
        if depth > 0 and o.kind == "call" and _last(o.name) in through and o.site is not None and o.site.args:
            out += follow(b, o.site.args[0], through, depth - 1)
        else:
            out.append(o)
    return out


def is_param(os_, n):
    return any(o.kind == "param" and o.name == n for o in os_)


def calls_named(b, last, contains=""):
    return [c for c in b.calls() if not b.is_cleanup(c.bb) and _last(c.name) == last and contains in (c.name or "")]


def from_call(os_, last, contains=""):
    return [o for o in os_ if o.kind == "call" and _last(o.name) == last and contains in (o.name or "")]


# ------------------------------------------------------------------------------------------- CACHE-2 a cache answers for the key it is asked about
LRU = "<utils::cache::LRUCache<K, V> as utils::cache::Cache<K, V>>::"
HASHMAP = "std::collections::HashMap"
TABLE = "tables::table::Table::"
TCACHE = "table_cache::TableCache::"


def cache2_cache_identity(P, R, L, rule="CACHE-2"):
    """The table cache hands out table readers by file number, the block cache parsed blocks by (table partition id, block offset).
    A read is only as right as the identity of what the caches return: the LRU map is asked, filled and pruned with the key the
    caller gave (an eviction removes the evicted entry's key, not the new one); partition ids are fresh (`last_id_given` is
    incremented and the incremented value returned); a table takes its partition id from `new_id()`; the block cache key is built
    from that id and the offset of the handle that is read from disk on a miss; the table cache opens the file named by the number
    it files the reader under."""
    n = 0
    # ---- LRUCache::get
    b = P.body(LRU + "get")
    if b is None:
        R.missing_anchor(rule, LRU + "get")
    else:
        R.analysed(b)
        n += 1
        gets = calls_named(b, "get", HASHMAP)
        keyed = bool(gets) and all(is_param(origins(b, c.args[1]), 2) for c in gets)
        R.check(rule, LRU + "get|map-asked-with-the-callers-key", keyed, where(b), "HashMap::get is keyed by the `key` parameter",
                "ok" if keyed else "keyed by %s" % [origins(b, c.args[1])[:2] for c in gets])
        ros = follow(b, {"l": 0, "p": []})
        ok = bool(from_call(ros, "get", HASHMAP)) and not [o for o in ros if o.kind == "call" and _last(o.name) not in ("get",)]
        R.check(rule, LRU + "get|returns-the-entry-found", ok, where(b), "the returned entry is the node found under the key (or None)",
                "ok" if ok else "returns %s" % ros[:4])
    # ---- LRUCache::remove
    b = P.body(LRU + "remove")
    if b is None:
        R.missing_anchor(rule, LRU + "remove")
    else:
        R.analysed(b)
        n += 1
        rms = calls_named(b, "remove", HASHMAP)
        keyed = bool(rms) and all(is_param(origins(b, c.args[1]), 2) for c in rms)
        must = bool(rms) and all(b.must_pass(x, through_nodes=[c.bb for c in rms]) for x in b.return_blocks())
        R.check(rule, LRU + "remove|map-entry-removed-for-the-callers-key", keyed and must, where(b),
                "every path removes the `key` parameter from the map", "ok" if keyed and must else "keyed=%s on-every-path=%s" % (keyed, must))
    # ---- LRUCache::insert
    b = P.body(LRU + "insert")
    if b is None:
        R.missing_anchor(rule, LRU + "insert")
    else:
        R.analysed(b)
        n += 1
        ins = calls_named(b, "insert", HASHMAP)
        pushes = [c for c in b.calls() if not b.is_cleanup(c.bb) and _last(c.name) in ("push_front", "push") and "linked_list" in (c.name or "")]
        ok_key = bool(ins) and all(is_param(follow(b, c.args[1]), 2) for c in ins)
        ok_node = bool(ins) and bool(pushes) and all(
            any(o.kind == "call" and o.site is not None and o.site.bb in [p.bb for p in pushes] for o in follow(b, c.args[2], through=("clone",)))
            for c in ins)
        # the pushed element is the tuple (key parameter, value parameter)
        ok_elem = bool(pushes)
        for p in pushes:
            os_ = origins(b, p.args[1])
            tup = [o for o in os_ if o.kind == "agg" and o.extra is not None]
            good = False
            for o in tup:
                st = o.extra[1]
                ops = st["rv"]["ops"]
                if len(ops) == 2 and is_param(follow(b, ops[0]), 2) and is_param(follow(b, ops[1]), 3):
                    good = True
            ok_elem = ok_elem and good
        must = bool(ins) and all(b.must_pass(x, through_nodes=[c.bb for c in ins]) for x in b.return_blocks())
        R.check(rule, LRU + "insert|files-the-callers-value-under-the-callers-key", ok_key and ok_node and ok_elem and must, where(b),
                "on every path HashMap::insert(key parameter, node pushed for (key parameter, value parameter))",
                "ok" if ok_key and ok_node and ok_elem and must else "key=%s node=%s element=%s every-path=%s" % (ok_key, ok_node, ok_elem, must))
        # eviction removes the key of the popped (least recently used) node
        rms = calls_named(b, "remove", HASHMAP)
        ok_ev = True
        found = "ok (%d map removals)" % len(rms)
        for c in rms:
            os_ = follow(b, c.args[1], through=ADAPTERS + ("element",))
            if is_param(os_, 2) or not any(o.kind == "call" and _last(o.name) in ("pop", "pop_front", "read") for o in origins(b, c.args[1]) + os_):
                # accept only keys that come out of the popped node
                src = [o for o in origins(b, c.args[1])]
                if not any("element" in o.path for o in src):
                    ok_ev, found = False, "HashMap::remove (line %s) is keyed by %s" % (c.t.get("line"), src[:3])
        pops = [c for c in b.calls() if not b.is_cleanup(c.bb) and _last(c.name) in ("pop", "pop_front") and "linked_list" in (c.name or "")]
        if rms and not pops:
            ok_ev, found = False, "a map removal without a list pop"
        # the evicted end is the end the list does not push to (push_front / push_node_front <-> pop; push <-> pop_front)
        front_push = any(_last(p.name) == "push_front" for p in pushes)
        for c in pops:
            if (_last(c.name) == "pop_front") == front_push:
                ok_ev, found = False, "evicts with %s from the end new entries are pushed to" % _last(c.name)
        R.check(rule, LRU + "insert|eviction-removes-the-evicted-key", ok_ev, where(b),
                "an eviction removes from the map the key stored in the node popped from the cold end of the list", found)
        ros = follow(b, {"l": 0, "p": []})
        gets = from_call(ros, "get", HASHMAP)
        ok_ret = (bool(gets) and all(is_param(follow(b, o.site.args[1]), 2) for o in gets)) or \
            any(o.kind == "call" and o.site is not None and o.site.bb in [p.bb for p in pushes] for o in ros)
        R.check(rule, LRU + "insert|returns-the-entry-filed", ok_ret, where(b), "the returned handle is the entry just filed under the key",
                "ok" if ok_ret else "returns %s" % ros[:4])
    # ---- LRUCache::new_id
    b = P.body(LRU + "new_id")
    if b is None:
        R.missing_anchor(rule, LRU + "new_id")
    else:
        R.analysed(b)
        n += 1
        sts = field_stores(b, "last_id_given")
        inc = False
        for (bb, i, st) in sts:
            for o in origins(b, st["rv"]["ops"][0]) if st["rv"]["k"] == "use" else []:
                if o.kind == "binop" and o.name in ("Add", "AddWithOverflow", "AddUnchecked") and o.extra is not None:
                    ops = o.extra[1]["rv"]["ops"]
                    has_field = any("last_id_given" in x.path for op in ops for x in origins(b, op))
                    has_one = any(op.get("k") == "const" and str(op.get("val")) == "1" for op in ops)
                    inc = inc or (has_field and has_one)
            if st["rv"]["k"] == "binop" and st["rv"].get("op") in ("Add", "AddUnchecked"):
                ops = st["rv"]["ops"]
                inc = inc or (any("last_id_given" in x.path for op in ops for x in origins(b, op)) and
                              any(op.get("k") == "const" and str(op.get("val")) == "1" for op in ops))
        must = bool(sts) and all(b.must_pass(x, through_nodes=[s[0] for s in sts]) for x in b.return_blocks())
        ros = origins(b, {"l": 0, "p": []})
        ret = any("last_id_given" in o.path for o in ros) or any(o.kind == "binop" and o.name.startswith("Add") for o in ros)
        # the value returned is read after the store (the incremented id), never before it
        reads_before = False
        for bb in field_reads(b, "last_id_given"):
            for st in b.blocks[bb]["stmts"]:
                if st["k"] == "assign" and st["pl"]["l"] == 0 and not st["pl"]["p"]:
                    if not all(b.dominates(s[0], bb) for s in sts):
                        reads_before = True
        ok = inc and must and ret
        R.check(rule, LRU + "new_id|fresh-id", ok, where(b), "`last_id_given` is incremented by one on every path and the incremented value is returned",
                "ok" if ok else "increment=%s every-path=%s returned=%s read-before-store=%s" % (inc, must, ret, reads_before))
    # (Table::open's partition id and the two BlockCacheKey::new sites are OWN-10's; TableCache::find_table is OWN-11's)
    b = P.body("tables::table::BlockCacheKey::new")
    if b is None:
        R.missing_anchor(rule, "tables::table::BlockCacheKey::new")
    else:
        R.analysed(b)
        n += 1
        ok, found = False, "no aggregate"
        for bb in range(b.n):
            for st in b.blocks[bb]["stmts"]:
                if st["k"] == "assign" and st["rv"]["k"] == "aggregate" and (st["rv"].get("adt") or "").endswith("BlockCacheKey"):
                    fields = st["rv"].get("fields") or []
                    want = {"cache_partition_id": 1, "block_offset": 2}
                    ok = all(f in fields and is_param(origins(b, st["rv"]["ops"][fields.index(f)]), p) for f, p in want.items())
                    found = "ok" if ok else "fields are not (parameter 1, parameter 2)"
        R.check(rule, "tables::table::BlockCacheKey::new|fields-from-their-parameters", ok, where(b),
                "cache_partition_id = first parameter, block_offset = second parameter", found)
    # identity of the key: equality and hash look at both fields
    for impl, what in (("<tables::table::BlockCacheKey as std::cmp::PartialEq>::eq", "eq"),):   # (a coarser Hash is slower, not wrong)
        b = P.body(impl)
        if b is None:
            R.missing_anchor(rule, impl)
            continue
        R.analysed(b)
        n += 1
        read = {f for f in ("cache_partition_id", "block_offset") if field_reads(b, f)}
        R.check(rule, impl + "|both-fields", len(read) == 2, where(b), "%s looks at the partition id and at the block offset" % what,
                "ok" if len(read) == 2 else "reads only %s" % sorted(read))
    # ---- Table::get_block_reader: on a miss the block of THIS handle is read, and that reader is what gets cached
    b = P.body(TABLE + "get_block_reader")
    if b is None:
        R.missing_anchor(rule, TABLE + "get_block_reader")
    else:
        R.analysed(b)
        n += 1
        ok, found = True, "ok"
        look = calls_named(b, "get_block_reader_from_cache")
        disk = calls_named(b, "get_data_block_reader_from_disk")
        fill = calls_named(b, "cache_block_reader")
        if not look or not disk:
            ok, found = False, "lookup / disk read missing"
        for c in look:
            if not is_param(origins(b, c.args[1]), 3):
                ok, found = False, "the cache is asked about %s" % origins(b, c.args[1])[:3]
        for c in disk:
            if not is_param(origins(b, c.args[1]), 3):
                ok, found = False, "the disk read uses %s" % origins(b, c.args[1])[:3]
            if not any("file" in o.path and o.kind == "param" and o.name == 1 for o in origins(b, c.args[0])):
                ok, found = False, "the disk read uses the file %s" % origins(b, c.args[0])[:3]
        for c in fill:
            if not is_param(origins(b, c.args[2]), 3):
                ok, found = False, "the block is cached under the handle %s" % origins(b, c.args[2])[:3]
            src = follow(b, c.args[1], through=("branch", "unwrap", "expect"))
            if not any(o.kind == "call" and _last(o.name) == "get_data_block_reader_from_disk" for o in src):
                ok, found = False, "the cached reader derives from %s" % src[:3]
        R.check(rule, TABLE + "get_block_reader|miss-reads-and-caches-the-requested-handle", ok, where(b),
                "cache lookup, disk read (self.file) and cache fill all use the block_handle parameter; the reader read from disk is the one cached", found)
    # ---- TableCache
    b = P.body(TCACHE + "remove")
    if b is None:
        R.missing_anchor(rule, TCACHE + "remove")
    else:
        R.analysed(b)
        n += 1
        cc = [c for c in b.calls() if not b.is_cleanup(c.bb) and (c.declared_name or "") == "utils::cache::Cache::remove"]
        ok = bool(cc) and all(is_param(origins(b, c.args[1]), 2) for c in cc)
        R.check(rule, TCACHE + "remove|evicts-the-numbered-file", ok, where(b), "Cache::remove is keyed by the file_number parameter",
                "ok" if ok else "calls %s" % cc)
    b = P.body(TCACHE + "get")
    if b is None:
        R.missing_anchor(rule, TCACHE + "get")
    else:
        R.analysed(b)
        n += 1
        ft = calls_named(b, "find_table")
        tg = [c for c in b.calls() if not b.is_cleanup(c.bb) and (c.name or "").endswith("tables::table::Table::get")]
        ok = bool(ft) and bool(tg) and all(is_param(origins(b, c.args[1]), 3) for c in ft) and \
            all(is_param(origins(b, c.args[2]), 4) and any(o.kind == "call" and _last(o.name) == "find_table" for o in follow(b, c.args[0], through=("branch", "deref"))) for c in tg)
        R.check(rule, TCACHE + "get|asks-the-numbered-table-for-the-given-key", ok, where(b),
                "find_table(file_number) and Table::get(.., key) on the table found", "ok" if ok else "find_table=%s table.get=%s" % (ft, tg))
    R.floor(rule, "cache identity sites checked", n, 9)


# ------------------------------------------------------------------------------------------- ERR-6 a fallible result is not answered with a panic
# callee (stripped resolved or declared name) -> (caller prefix or "", reason); confirmed by reading every unwrap / expect of a Result on the reviewed tree
ASSERT_OK = [
    ("std::fmt::Write::write_fmt", "", "formatting into a String cannot fail"),
    ("integer_encoding::VarIntWriter>::write_varint", "impl std::convert::From<&", "the writer is a Vec<u8> (serialisation into memory)"),
    ("utils::io::WriteHelpers>::write_length_prefixed_slice", "impl std::convert::From<&", "the writer is a Vec<u8> (serialisation into memory)"),
    ("std::io::impls::write_all", "impl std::convert::From<&", "the writer is a Vec<u8> (serialisation into memory)"),
    ("std::io::Write::write_all", "impl std::convert::From<&", "the writer is a Vec<u8> (serialisation into memory)"),
    ("<key::InternalKey as std::convert::TryFrom<std::vec::Vec<u8>>>::try_from", "tables::", "re-parses bytes the builder serialised from an InternalKey itself"),
    ("snap::write::FrameEncoder::into_inner", "tables::table_builder::TableBuilder::write_block", "the encoder's sink is a Vec<u8>"),
    ("iterator::RainDbIterator::seek", "<memtable::SkipListMemTable as memtable::MemTable>::get", "the memtable iterator's seek has no failing path"),
    ("std::env::current_dir", "<options::DbOptions as std::default::Default>::default", "default options; no database is open yet"),
    ("std::sync::mpsc::Receiver::recv", "compaction::worker::CompactionWorker::new", "the sender lives as long as the worker (stop is a message)"),
    ("std::sync::mpsc::SyncSender::send", "compaction::worker::CompactionWorker::schedule_task", "the receiver lives until the worker was told to stop"),
    ("<key::Operation as std::convert::TryFrom<u8>>::try_from", "db::DB::force_level_compaction", "conversion of the constant 0"),
    ("tempfile::TempDir::new", "fs::fs_disk::TmpFileSystem::new", "test file system constructor; no database is open yet"),
    ("tempfile::TempDir::new_in", "fs::fs_disk::TmpFileSystem::new", "test file system constructor; no database is open yet"),
]
PANICKING = {"std::result::Result::unwrap", "std::result::Result::expect"}


def err6_no_panic_on_a_fallible_result(P, R, L, rule="ERR-6"):
    """ERR-1 accepts `unwrap` / `expect` as "not swallowed".  For the storage layer that is not good enough: a failed append, read,
    rename or parse answered with a panic is neither an error returned to the caller nor an effect taken - on the compaction thread
    it is a dead worker with the scheduled flag set (every waiter hangs).  Every Result that is consumed ONLY by unwrap / expect
    must come from one of the callees confirmed infallible by reading (table ASSERT_OK: in-memory serialisation, formatting,
    channel ends, constructors that run before a database is open)."""
    from .. import err
    n = sites = 0
    for p, b in sorted(P.bodies_as_written.items()):
        for cs in err.result_sites(b):
            if cs.name in (err.TRY_BRANCH, err.FROM_RESIDUAL) or cs.name in err.ALIASING or cs.name in err.CHAINING:
                continue
            sites += 1
            A = err.forward_aliases(b, cs.dest["l"]) if not cs.dest["p"] else set()
            if not A:
                continue
            pan = [c for c in b.calls() if not b.is_cleanup(c.bb) and c.name in PANICKING and c.args and
                   c.args[0].get("k") in ("copy", "move") and c.args[0]["pl"]["l"] in A and not c.args[0]["pl"]["p"]]
            if not pan:
                # through one chaining adapter (`.map_err(..).unwrap()`)
                for c in b.calls():
                    if not b.is_cleanup(c.bb) and c.name in err.CHAINING and c.args and c.args[0].get("k") in ("copy", "move") and \
                            c.args[0]["pl"]["l"] in A and not c.dest["p"]:
                        A2 = err.forward_aliases(b, c.dest["l"])
                        pan += [x for x in b.calls() if not b.is_cleanup(x.bb) and x.name in PANICKING and x.args and
                                x.args[0].get("k") in ("copy", "move") and x.args[0]["pl"]["l"] in A2 and not x.args[0]["pl"]["p"]]
            if not pan:
                continue
            # a result that is also tested / propagated (`if r.is_err() { return .. } r.unwrap()`) is handled: the panic is unreachable
            if err.result_tests(b, cs.dest["l"]):
                continue
            n += 1
            R.analysed(b)
            nm, dn = cs.name or "", cs.declared_name or ""
            row = [r for r in ASSERT_OK if (r[0] in nm or r[0] in dn) and r[1] in p]
            R.check(rule, "%s|callee=%s|answered-with-a-panic" % (p, dn or nm), bool(row), cs.where(),
                    "a Result consumed only by unwrap / expect comes from a callee confirmed infallible (table ASSERT_OK)",
                    ("ok: " + row[0][2]) if row else "%s can fail; its Err panics at line %s" % (nm, pan[0].t.get("line")))
    R.call_sites += sites
    R.floor(rule, "unwrap / expect sites of Results examined", n, 30)
