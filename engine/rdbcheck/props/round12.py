"""Rules written in round 12 (third blind-spot review: bodies no rule had looked at + the round-12 independent seeded changes).
Same conventions as props/common.py: anchors are resolved definitions, keys carry no line numbers, floors are hand-counted on
the reviewed tree."""
from ..rules import (bool_tests, comparisons, field_stores, field_reads, result_tests, option_tests, switch_target)
from ..dataflow import origins, roots
from .common import where


def _last(name):
    return (name or "").rsplit("::", 1)[-1]


ADAPTERS = ("map", "cloned", "copied", "unwrap", "expect", "as_ref", "clone", "new", "get_value", "deref", "read", "to_owned",
            "from", "into")


def follow(b, x, through=ADAPTERS, depth=6):
    """origins of an operand / place, looking through value-preserving adapters (Option::map(.., clone), Box::new, ...)"""
    out = []
    for o in origins(b, x):
        if depth > 0 and o.kind == "call" and _last(o.name) in through and o.site is not None and o.site.args:
            out += follow(b, o.site.args[0], through, depth - 1)
        else:
            out.append(o)
    return out


def is_param(os_, n):
    return any(o.kind == "param" and o.name == n for o in os_)


def calls_named(b, last, contains=""):
    return [c for c in b.calls() if not b.is_cleanup(c.bb) and _last(c.name) == last and contains in (c.name or "")]


def from_call(os_, last, contains=""):
    return [o for o in os_ if o.kind == "call" and _last(o.name) == last and contains in (o.name or "")]


# ------------------------------------------------------------------------------------------- CACHE-2 a cache answers for the key it is asked about
LRU = "<utils::cache::LRUCache<K, V> as utils::cache::Cache<K, V>>::"
HASHMAP = "std::collections::HashMap"
TABLE = "tables::table::Table::"
TCACHE = "table_cache::TableCache::"


def cache2_cache_identity(P, R, L, rule="CACHE-2"):
    """The table cache hands out table readers by file number, the block cache parsed blocks by (table partition id, block offset).
    A read is only as right as the identity of what the caches return: the LRU map is asked, filled and pruned with the key the
    caller gave (an eviction removes the evicted entry's key, not the new one); partition ids are fresh (`last_id_given` is
    incremented and the incremented value returned); a table takes its partition id from `new_id()`; the block cache key is built
    from that id and the offset of the handle that is read from disk on a miss; the table cache opens the file named by the number
    it files the reader under."""
    n = 0
    # ---- LRUCache::get
    b = P.body(LRU + "get")
    if b is None:
        R.missing_anchor(rule, LRU + "get")
    else:
        R.analysed(b)
        n += 1
        gets = calls_named(b, "get", HASHMAP)
        keyed = bool(gets) and all(is_param(origins(b, c.args[1]), 2) for c in gets)
        R.check(rule, LRU + "get|map-asked-with-the-callers-key", keyed, where(b), "HashMap::get is keyed by the `key` parameter",
                "ok" if keyed else "keyed by %s" % [origins(b, c.args[1])[:2] for c in gets])
        ros = follow(b, {"l": 0, "p": []})
        ok = bool(from_call(ros, "get", HASHMAP)) and not [o for o in ros if o.kind == "call" and _last(o.name) not in ("get",)]
        R.check(rule, LRU + "get|returns-the-entry-found", ok, where(b), "the returned entry is the node found under the key (or None)",
                "ok" if ok else "returns %s" % ros[:4])
    # ---- LRUCache::remove
    b = P.body(LRU + "remove")
    if b is None:
        R.missing_anchor(rule, LRU + "remove")
    else:
        R.analysed(b)
        n += 1
        rms = calls_named(b, "remove", HASHMAP)
        keyed = bool(rms) and all(is_param(origins(b, c.args[1]), 2) for c in rms)
        must = bool(rms) and all(b.must_pass(x, through_nodes=[c.bb for c in rms]) for x in b.return_blocks())
        R.check(rule, LRU + "remove|map-entry-removed-for-the-callers-key", keyed and must, where(b),
                "every path removes the `key` parameter from the map", "ok" if keyed and must else "keyed=%s on-every-path=%s" % (keyed, must))
    # ---- LRUCache::insert
    b = P.body(LRU + "insert")
    if b is None:
        R.missing_anchor(rule, LRU + "insert")
    else:
        R.analysed(b)
        n += 1
        ins = calls_named(b, "insert", HASHMAP)
        pushes = [c for c in b.calls() if not b.is_cleanup(c.bb) and _last(c.name) in ("push_front", "push") and "linked_list" in (c.name or "")]
        ok_key = bool(ins) and all(is_param(follow(b, c.args[1]), 2) for c in ins)
        ok_node = bool(ins) and bool(pushes) and all(
            any(o.kind == "call" and o.site is not None and o.site.bb in [p.bb for p in pushes] for o in follow(b, c.args[2], through=("clone",)))
            for c in ins)
        # the pushed element is the tuple (key parameter, value parameter)
        ok_elem = bool(pushes)
        for p in pushes:
            os_ = origins(b, p.args[1])
            tup = [o for o in os_ if o.kind == "agg" and o.extra is not None]
            good = False
            for o in tup:
                st = o.extra[1]
                ops = st["rv"]["ops"]
                if len(ops) == 2 and is_param(follow(b, ops[0]), 2) and is_param(follow(b, ops[1]), 3):
                    good = True
            ok_elem = ok_elem and good
        must = bool(ins) and all(b.must_pass(x, through_nodes=[c.bb for c in ins]) for x in b.return_blocks())
        R.check(rule, LRU + "insert|files-the-callers-value-under-the-callers-key", ok_key and ok_node and ok_elem and must, where(b),
                "on every path HashMap::insert(key parameter, node pushed for (key parameter, value parameter))",
                "ok" if ok_key and ok_node and ok_elem and must else "key=%s node=%s element=%s every-path=%s" % (ok_key, ok_node, ok_elem, must))
        # eviction removes the key of the popped (least recently used) node
        rms = calls_named(b, "remove", HASHMAP)
        ok_ev = True
        found = "ok (%d map removals)" % len(rms)
        for c in rms:
            os_ = follow(b, c.args[1], through=ADAPTERS + ("element",))
            if is_param(os_, 2) or not any(o.kind == "call" and _last(o.name) in ("pop", "pop_front", "read") for o in origins(b, c.args[1]) + os_):
                # accept only keys that come out of the popped node
                src = [o for o in origins(b, c.args[1])]
                if not any("element" in o.path for o in src):
                    ok_ev, found = False, "HashMap::remove (line %s) is keyed by %s" % (c.t.get("line"), src[:3])
        pops = [c for c in b.calls() if not b.is_cleanup(c.bb) and _last(c.name) in ("pop", "pop_front") and "linked_list" in (c.name or "")]
        if rms and not pops:
            ok_ev, found = False, "a map removal without a list pop"
        # the evicted end is the end the list does not push to (push_front / push_node_front <-> pop; push <-> pop_front)
        front_push = any(_last(p.name) == "push_front" for p in pushes)
        for c in pops:
            if (_last(c.name) == "pop_front") == front_push:
                ok_ev, found = False, "evicts with %s from the end new entries are pushed to" % _last(c.name)
        R.check(rule, LRU + "insert|eviction-removes-the-evicted-key", ok_ev, where(b),
                "an eviction removes from the map the key stored in the node popped from the cold end of the list", found)
        ros = follow(b, {"l": 0, "p": []})
        gets = from_call(ros, "get", HASHMAP)
        ok_ret = (bool(gets) and all(is_param(follow(b, o.site.args[1]), 2) for o in gets)) or \
            any(o.kind == "call" and o.site is not None and o.site.bb in [p.bb for p in pushes] for o in ros)
        R.check(rule, LRU + "insert|returns-the-entry-filed", ok_ret, where(b), "the returned handle is the entry just filed under the key",
                "ok" if ok_ret else "returns %s" % ros[:4])
    # ---- LRUCache::new_id
    b = P.body(LRU + "new_id")
    if b is None:
        R.missing_anchor(rule, LRU + "new_id")
    else:
        R.analysed(b)
        n += 1
        sts = field_stores(b, "last_id_given")
        inc = False
        for (bb, i, st) in sts:
            for o in origins(b, st["rv"]["ops"][0]) if st["rv"]["k"] == "use" else []:
                if o.kind == "binop" and o.name in ("Add", "AddWithOverflow", "AddUnchecked") and o.extra is not None:
                    ops = o.extra[1]["rv"]["ops"]
                    has_field = any("last_id_given" in x.path for op in ops for x in origins(b, op))
                    has_one = any(op.get("k") == "const" and str(op.get("val")) == "1" for op in ops)
                    inc = inc or (has_field and has_one)
            if st["rv"]["k"] == "binop" and st["rv"].get("op") in ("Add", "AddUnchecked"):
                ops = st["rv"]["ops"]
                inc = inc or (any("last_id_given" in x.path for op in ops for x in origins(b, op)) and
                              any(op.get("k") == "const" and str(op.get("val")) == "1" for op in ops))
        must = bool(sts) and all(b.must_pass(x, through_nodes=[s[0] for s in sts]) for x in b.return_blocks())
        ros = origins(b, {"l": 0, "p": []})
        ret = any("last_id_given" in o.path for o in ros) or any(o.kind == "binop" and o.name.startswith("Add") for o in ros)
        # the value returned is read after the store (the incremented id), never before it
        reads_before = False
        for bb in field_reads(b, "last_id_given"):
            for st in b.blocks[bb]["stmts"]:
                if st["k"] == "assign" and st["pl"]["l"] == 0 and not st["pl"]["p"]:
                    if not all(b.dominates(s[0], bb) for s in sts):
                        reads_before = True
        ok = inc and must and ret
        R.check(rule, LRU + "new_id|fresh-id", ok, where(b), "`last_id_given` is incremented by one on every path and the incremented value is returned",
                "ok" if ok else "increment=%s every-path=%s returned=%s read-before-store=%s" % (inc, must, ret, reads_before))
    # (Table::open's partition id and the two BlockCacheKey::new sites are OWN-10's; TableCache::find_table is OWN-11's)
    b = P.body("tables::table::BlockCacheKey::new")
    if b is None:
        R.missing_anchor(rule, "tables::table::BlockCacheKey::new")
    else:
        R.analysed(b)
        n += 1
        ok, found = False, "no aggregate"
        for bb in range(b.n):
            for st in b.blocks[bb]["stmts"]:
                if st["k"] == "assign" and st["rv"]["k"] == "aggregate" and (st["rv"].get("adt") or "").endswith("BlockCacheKey"):
                    fields = st["rv"].get("fields") or []
                    want = {"cache_partition_id": 1, "block_offset": 2}
                    ok = all(f in fields and is_param(origins(b, st["rv"]["ops"][fields.index(f)]), p) for f, p in want.items())
                    found = "ok" if ok else "fields are not (parameter 1, parameter 2)"
        R.check(rule, "tables::table::BlockCacheKey::new|fields-from-their-parameters", ok, where(b),
                "cache_partition_id = first parameter, block_offset = second parameter", found)
    # identity of the key: equality and hash look at both fields
    for impl, what in (("<tables::table::BlockCacheKey as std::cmp::PartialEq>::eq", "eq"),):   # (a coarser Hash is slower, not wrong)
        b = P.body(impl)
        if b is None:
            R.missing_anchor(rule, impl)
            continue
        R.analysed(b)
        n += 1
        read = {f for f in ("cache_partition_id", "block_offset") if field_reads(b, f)}
        R.check(rule, impl + "|both-fields", len(read) == 2, where(b), "%s looks at the partition id and at the block offset" % what,
                "ok" if len(read) == 2 else "reads only %s" % sorted(read))
    # ---- Table::get_block_reader: on a miss the block of THIS handle is read, and that reader is what gets cached
    b = P.body(TABLE + "get_block_reader")
    if b is None:
        R.missing_anchor(rule, TABLE + "get_block_reader")
    else:
        R.analysed(b)
        n += 1
        ok, found = True, "ok"
        look = calls_named(b, "get_block_reader_from_cache")
        disk = calls_named(b, "get_data_block_reader_from_disk")
        fill = calls_named(b, "cache_block_reader")
        if not look or not disk:
            ok, found = False, "lookup / disk read missing"
        for c in look:
            if not is_param(origins(b, c.args[1]), 3):
                ok, found = False, "the cache is asked about %s" % origins(b, c.args[1])[:3]
        for c in disk:
            if not is_param(origins(b, c.args[1]), 3):
                ok, found = False, "the disk read uses %s" % origins(b, c.args[1])[:3]
            if not any("file" in o.path and o.kind == "param" and o.name == 1 for o in origins(b, c.args[0])):
                ok, found = False, "the disk read uses the file %s" % origins(b, c.args[0])[:3]
        for c in fill:
            if not is_param(origins(b, c.args[2]), 3):
                ok, found = False, "the block is cached under the handle %s" % origins(b, c.args[2])[:3]
            src = follow(b, c.args[1], through=("branch", "unwrap", "expect"))
            if not any(o.kind == "call" and _last(o.name) == "get_data_block_reader_from_disk" for o in src):
                ok, found = False, "the cached reader derives from %s" % src[:3]
        R.check(rule, TABLE + "get_block_reader|miss-reads-and-caches-the-requested-handle", ok, where(b),
                "cache lookup, disk read (self.file) and cache fill all use the block_handle parameter; the reader read from disk is the one cached", found)
    # ---- TableCache
    b = P.body(TCACHE + "remove")
    if b is None:
        R.missing_anchor(rule, TCACHE + "remove")
    else:
        R.analysed(b)
        n += 1
        cc = [c for c in b.calls() if not b.is_cleanup(c.bb) and (c.declared_name or "") == "utils::cache::Cache::remove"]
        ok = bool(cc) and all(is_param(origins(b, c.args[1]), 2) for c in cc)
        R.check(rule, TCACHE + "remove|evicts-the-numbered-file", ok, where(b), "Cache::remove is keyed by the file_number parameter",
                "ok" if ok else "calls %s" % cc)
    b = P.body(TCACHE + "get")
    if b is None:
        R.missing_anchor(rule, TCACHE + "get")
    else:
        R.analysed(b)
        n += 1
        ft = calls_named(b, "find_table")
        tg = [c for c in b.calls() if not b.is_cleanup(c.bb) and (c.name or "").endswith("tables::table::Table::get")]
        ok = bool(ft) and bool(tg) and all(is_param(origins(b, c.args[1]), 3) for c in ft) and \
            all(is_param(origins(b, c.args[2]), 4) and any(o.kind == "call" and _last(o.name) == "find_table" for o in follow(b, c.args[0], through=("branch", "deref"))) for c in tg)
        R.check(rule, TCACHE + "get|asks-the-numbered-table-for-the-given-key", ok, where(b),
                "find_table(file_number) and Table::get(.., key) on the table found", "ok" if ok else "find_table=%s table.get=%s" % (ft, tg))
    R.floor(rule, "cache identity sites checked", n, 9)


# ------------------------------------------------------------------------------------------- ERR-6 a fallible result is not answered with a panic
# callee (stripped resolved or declared name) -> (caller prefix or "", reason); confirmed by reading every unwrap / expect of a Result on the reviewed tree
ASSERT_OK = [
    ("std::fmt::Write::write_fmt", "", "formatting into a String cannot fail"),
    ("integer_encoding::VarIntWriter>::write_varint", "impl std::convert::From<&", "the writer is a Vec<u8> (serialisation into memory)"),
    ("utils::io::WriteHelpers>::write_length_prefixed_slice", "impl std::convert::From<&", "the writer is a Vec<u8> (serialisation into memory)"),
    ("std::io::impls::write_all", "impl std::convert::From<&", "the writer is a Vec<u8> (serialisation into memory)"),
    ("std::io::Write::write_all", "impl std::convert::From<&", "the writer is a Vec<u8> (serialisation into memory)"),
    ("<key::InternalKey as std::convert::TryFrom<std::vec::Vec<u8>>>::try_from", "tables::", "re-parses bytes the builder serialised from an InternalKey itself"),
    ("snap::write::FrameEncoder::into_inner", "tables::table_builder::TableBuilder::write_block", "the encoder's sink is a Vec<u8>"),
    ("iterator::RainDbIterator::seek", "<memtable::SkipListMemTable as memtable::MemTable>::get", "the memtable iterator's seek has no failing path"),
    ("std::env::current_dir", "<options::DbOptions as std::default::Default>::default", "default options; no database is open yet"),
    ("std::sync::mpsc::Receiver::recv", "compaction::worker::CompactionWorker::new", "the sender lives as long as the worker (stop is a message)"),
    ("std::sync::mpsc::SyncSender::send", "compaction::worker::CompactionWorker::schedule_task", "the receiver lives until the worker was told to stop"),
    ("<key::Operation as std::convert::TryFrom<u8>>::try_from", "db::DB::force_level_compaction", "conversion of the constant 0"),
    ("tempfile::TempDir::new", "fs::fs_disk::TmpFileSystem::new", "test file system constructor; no database is open yet"),
    ("tempfile::TempDir::new_in", "fs::fs_disk::TmpFileSystem::new", "test file system constructor; no database is open yet"),
]
PANICKING = {"std::result::Result::unwrap", "std::result::Result::expect"}
STORAGE_ERRORS = ("std::io::Error", "errors::", "IOError", "ReadError", "WriteError", "BuilderError", "RecoverError", "CompactionWorkerError", "RainDBError")


def err6_no_panic_on_a_fallible_result(P, R, L, rule="ERR-6"):
    """ERR-1 accepts `unwrap` / `expect` as "not swallowed".  For the storage layer that is not good enough: a failed append, read,
    rename or parse answered with a panic is neither an error returned to the caller nor an effect taken - on the compaction thread
    it is a dead worker with the scheduled flag set (every waiter hangs).  Every Result that is consumed ONLY by unwrap / expect
    must come from one of the callees confirmed infallible by reading (table ASSERT_OK: in-memory serialisation, formatting,
    channel ends, constructors that run before a database is open)."""
    from .. import err
    n = sites = out_of_scope = 0
    for p, b in sorted(P.bodies_as_written.items()):
        for cs in err.result_sites(b):
            if cs.name in (err.TRY_BRANCH, err.FROM_RESIDUAL) or cs.name in err.ALIASING or cs.name in err.CHAINING:
                continue
            sites += 1
            A = err.forward_aliases(b, cs.dest["l"]) if not cs.dest["p"] else set()
            if not A:
                continue
            pan = [c for c in b.calls() if not b.is_cleanup(c.bb) and c.name in PANICKING and c.args and
                   c.args[0].get("k") in ("copy", "move") and c.args[0]["pl"]["l"] in A and not c.args[0]["pl"]["p"]]
            if not pan:
                # through one chaining adapter (`.map_err(..).unwrap()`)
                for c in b.calls():
                    if not b.is_cleanup(c.bb) and c.name in err.CHAINING and c.args and c.args[0].get("k") in ("copy", "move") and \
                            c.args[0]["pl"]["l"] in A and not c.dest["p"]:
                        A2 = err.forward_aliases(b, c.dest["l"])
                        pan += [x for x in b.calls() if not b.is_cleanup(x.bb) and x.name in PANICKING and x.args and
                                x.args[0].get("k") in ("copy", "move") and x.args[0]["pl"]["l"] in A2 and not x.args[0]["pl"]["p"]]
            if not pan:
                continue
            # a result that is also tested / propagated (`if r.is_err() { return .. } r.unwrap()`) is handled: the panic is unreachable
            if err.result_tests(b, cs.dest["l"]):
                continue
            # only storage-layer failures are in scope: std::io::Error and the crate's own error enums (a `TryFromIntError`,
            # `FromUtf8Error`, `fmt::Error` or a closed channel is not a failing file system)
            ty = b.local_ty(cs.dest["l"]) or ""
            err_ty = ty.split(",", 1)[1] if "," in ty else ty
            if not any(x in err_ty for x in STORAGE_ERRORS):
                out_of_scope += 1
                continue
            n += 1
            R.analysed(b)
            nm, dn = cs.name or "", cs.declared_name or ""
            row = [r for r in ASSERT_OK if (r[0] in nm or r[0] in dn) and r[1] in p]
            R.check(rule, "%s|callee=%s|answered-with-a-panic" % (p, dn or nm), bool(row), cs.where(),
                    "a Result consumed only by unwrap / expect comes from a callee confirmed infallible (table ASSERT_OK)",
                    ("ok: " + row[0][2]) if row else "%s can fail; its Err panics at line %s" % (nm, pan[0].t.get("line")))
    R.call_sites += sites
    R.floor(rule, "unwrap / expect sites of storage-layer Results examined", n, 20)


# ------------------------------------------------------------------------------------------- BSRCH-2 a seek that keeps the cursor does so only on an exact hit
BLOCK_SEEK = "<tables::block::BlockIter<K> as iterator::RainDbIterator>::seek"


def bsrch2_block_seek_shortcut(P, R, L, rule="BSRCH-2"):
    """BlockIter::seek may leave the cursor where it is (return without storing `current_index`) only when the entry under
    the cursor EQUALS the target: every store-free path to a return passes the true edge of an equality test between the current
    key and the target parameter (`==`, or the Equal arm of a cmp).  A wider "already there" test has to prove that the
    predecessor is strictly smaller, and an internal key equal to the predecessor is exactly the re-seek a scan makes."""
    b = P.body(BLOCK_SEEK)
    if b is None:
        return R.missing_anchor(rule, BLOCK_SEEK)
    R.analysed(b)
    stores = [s[0] for s in field_stores(b, "current_index")]
    free = b.reachable(0, removed_nodes=stores)
    exits = [x for x in b.return_blocks() if x in free]
    if not exits:
        return R.check(rule, BLOCK_SEEK + "|cursor-kept-only-on-an-exact-hit", bool(stores), where(b),
                       "every return follows a store to current_index", "no store-free return (%d stores)" % len(stores))
    is_target = lambda os_: any(o.kind == "param" and o.name == b.nargs for o in os_)
    eq_true = []
    for c in b.calls():
        if b.is_cleanup(c.bb) or len(c.args) != 2:
            continue
        dn = c.declared_name or ""
        if dn == "std::cmp::PartialEq::eq" and (is_target(origins(b, c.args[0])) != is_target(origins(b, c.args[1]))) and not c.dest["p"]:
            for t in bool_tests(b, c.dest["l"]):
                eq_true += t.ok_edges()
        elif dn in ("std::cmp::Ord::cmp", "std::cmp::PartialOrd::partial_cmp") and \
                (is_target(origins(b, c.args[0])) != is_target(origins(b, c.args[1]))) and not c.dest["p"] and dn.endswith("Ord::cmp"):
            # match on the Ordering: the Equal (0) arm, when it is not shared with Less / Greater
            for bb in range(b.n):
                for st in b.blocks[bb]["stmts"]:
                    if st["k"] == "assign" and st["rv"]["k"] == "discr" and st["rv"]["pl"]["l"] == c.dest["l"] and not st["pl"]["p"]:
                        for sb in range(b.n):
                            t = b.term(sb)
                            if t["k"] == "switch" and t["discr"]["k"] in ("copy", "move") and t["discr"]["pl"]["l"] == st["pl"]["l"]:
                                eqt = switch_target(t, 0)
                                others = {tg for (v, tg) in t["targets"] if str(v) != "0"} | {t.get("otherwise")}
                                if eqt is not None and eqt not in others:
                                    eq_true.append((sb, eqt))
    bad = [x for x in exits if not b.must_pass(x, through_edges=eq_true, through_nodes=stores)]
    R.check(rule, BLOCK_SEEK + "|cursor-kept-only-on-an-exact-hit", not bad, where(b),
            "a return that leaves current_index untouched is reached only over the true edge of `current key == target`",
            "ok (%d equality edges, %d store-free returns)" % (len(eq_true), len(exits)) if not bad else
            "a store-free return (block %s, line %s) is reachable without an equality test against the target" % (bad[0], b.term(bad[0]).get("line")))


# ------------------------------------------------------------------------------------------- OWN-16 who may make the client iterator valid
DBITER = "iterator::DatabaseIterator"
VISIBILITY_LOOPS = ("iterator::DatabaseIterator::find_next_client_entry", "iterator::DatabaseIterator::find_prev_client_entry")


def own16_client_iterator_validity(P, R, L, rule="OWN-16"):
    """DatabaseIterator shows an entry only after one of the two collapse loops (find_next_client_entry /
    find_prev_client_entry) accepted it: they apply the sequence filter (GRD-3), skip tombstones and shadowed versions (ITR-1/2).
    `is_valid` is therefore set to true nowhere else - a positioning method that declares the landed record current by itself
    shows entries newer than the snapshot, or a different user key's hidden version."""
    n, bad = 0, []
    for p, b in sorted(P.bodies.items()):
        for (bb, i, st) in field_stores(b, "is_valid", adt=DBITER):
            rv = st["rv"]
            is_false = rv["k"] == "use" and rv["ops"][0].get("k") == "const" and str(rv["ops"][0].get("val")) in ("0", "false")
            if is_false:
                continue
            n += 1
            R.analysed(b)
            host = p if b.kind != "closure" else (b.parent or p)
            if host not in VISIBILITY_LOOPS:
                bad.append("%s (line %s)" % (p, st.get("line")))
    R.check(rule, DBITER + "|valid-only-through-the-collapse-loops", not bad and n > 0, "src/iterator.rs",
            "stores of a non-false value into DatabaseIterator::is_valid occur only in find_next_client_entry / find_prev_client_entry",
            "ok (%d stores)" % n if not bad else "also stored by %s" % bad)
    R.floor(rule, "stores that make the client iterator valid", n, 2)


# ------------------------------------------------------------------------------------------- GRD-9 (identity) the lock is on the file the path names
INO = "std::os::unix::fs::MetadataExt::ino"


def _is_ino(name):
    return _last(name) == "ino" and "MetadataExt" in (name or "")


def _ino_equal_edges(b):
    """true edges of `x.ino() == y.ino()` comparisons in b (both operands are results of MetadataExt::ino)"""
    is_ino = lambda os_: bool(os_) and all(o.kind == "call" and _is_ino(o.name) for o in os_)
    out = []
    for c in comparisons(b):
        if c.op == "eq" and is_ino(c.lhs_origins()) and is_ino(c.rhs_origins()):
            out += [(c.bb, t) for t in c.true_t]
        elif c.op == "ne" and is_ino(c.lhs_origins()) and is_ino(c.rhs_origins()):
            out += [(c.bb, t) for t in c.false_t]
    return out


def _ok_blocks(b):
    return [bb for bb in range(b.n) if not b.is_cleanup(bb) for st in b.blocks[bb]["stmts"]
            if st["k"] == "assign" and st["pl"]["l"] == 0 and not st["pl"]["p"] and st["rv"]["k"] == "aggregate" and st["rv"].get("variant") == "Ok"]


def grd9_lock_file_identity(P, R, L, rule="GRD-9"):
    """flock is tied to the inode, the database to the path.  destroy_database unlinks LOCK while it holds the lock; an opener
    that opened the file before the unlink is granted the lock on the nameless inode as soon as destroy releases it, and the next
    opener creates and locks a fresh LOCK: two owners.  Every disk-backed lock_file therefore returns Ok(FileLock) only after
    it compared the inode of the file it locked with the inode the path names NOW (after the lock was granted), over the equal
    edge; the comparison may live in a helper whose Ok is tested."""
    lock_file = "fs::traits::FileSystem::lock_file"
    # function-at-a-time view: a `?`-returning helper inlined into its `?`-using caller creates the infeasible path "Err in the
    # helper, Continue in the caller", which would bypass the comparison
    W = P.bodies_as_written
    impls = [im for im in P.trait_impls.get(lock_file, []) if im in W and "fs_disk" in W[im].file]
    R.floor(rule, "disk-backed lock_file implementations (identity)", len(impls), 2)
    for im in impls:
        b = W[im]
        R.analysed(b)
        locks = [c for c in b.calls() if not b.is_cleanup(c.bb) and (c.name or "").endswith("::try_lock_exclusive")]
        okb = _ok_blocks(b)
        if not locks or not okb:
            R.check(rule, "%s|locked-file-is-the-one-the-path-names" % im, False, where(b), "try_lock_exclusive and an Ok return", "locks %d, Ok blocks %d" % (len(locks), len(okb)))
            continue
        start = locks[0].target
        edges = list(_ino_equal_edges(b))       # the comparison written in place (or inlined from an unreviewed helper)
        how = "in place" if edges else ""
        for c in b.calls():
            if b.is_cleanup(c.bb) or c.bb not in b.reachable(start) or c.dest["p"]:
                continue
            h = W.get(c.t.get("resolved") or "")
            if h is None or c.t.get("dyn"):
                continue
            he = _ino_equal_edges(h)
            hok = _ok_blocks(h)
            if not he or not hok:
                continue
            R.analysed(h)
            # inside the helper: Ok only over the equal edge; one inode comes from the open file, the other from the path
            sound = all(h.must_pass(x, through_edges=he) for x in hok)
            metas = {o.name for cc in h.calls() if _is_ino(cc.name) and cc.args for o in follow(h, cc.args[0], through=ADAPTERS + ("branch",)) if o.kind == "call"}
            two_sources = any(n.endswith("fs::File::metadata") for n in metas) and any(n.endswith("fs::metadata") or n.endswith("fs::symlink_metadata") for n in metas)
            # the file handed to the helper is the locked file
            same_file = any({(o.kind, o.name, o.site.bb if o.site else None) for a in c.args for o in origins(b, a) if o.kind == "call"} &
                            {(o.kind, o.name, o.site.bb if o.site else None) for o in origins(b, locks[0].args[0]) if o.kind == "call"} for _ in (0,))
            if sound and two_sources and same_file:
                for t in result_tests(b, c.dest["l"]):
                    edges += t.ok_edges()
                how = "helper %s" % h.path
        ok = bool(edges) and all(b.must_pass(x, through_edges=edges, start=start) for x in okb)
        R.check(rule, "%s|locked-file-is-the-one-the-path-names" % im, ok, where(b),
                "Ok(FileLock) is returned only after the locked file's inode was found equal to the inode the path names after the lock was granted",
                "ok (%s)" % how if ok else ("no inode comparison between the lock and the Ok return" if not edges else "an Ok return bypasses the comparison"))


# ------------------------------------------------------------------------------------------- EXP-1 the level-0 input expansion is a fixpoint over the widened range
EXPAND = "versioning::version::Version::get_overlapping_compaction_inputs"


def exp1_level0_expansion_fixpoint(P, R, L, rule="EXP-1"):
    """Version::get_overlapping_compaction_inputs at level 0 (LevelDB's GetOverlappingInputs): files overlap each other, so a file
    that is added may widen the searched user-key range, and the search has to be repeated with the wider range.  Decided:
    (a) the four comparisons between a bound of the current file and the range are made against the WIDENED range (the two
    accumulators), never against the caller's original bounds; (b) an iteration that adds a file and goes on without restarting
    has found that the file widens neither side: it passed the false edge of `file start < range start` (or the unbounded edge) and
    the false edge of `file end > range end` (or stored the wider end); (c) the true edge of `file start < range start` stores the
    new start and restarts the scan (index = 0), the true edge of `file end > range end` stores the new end."""
    from .. import role
    from ..rules import SWAP
    b = P.body(EXPAND)
    if b is None:
        return R.missing_anchor(rule, EXPAND)
    R.analysed(b)
    accs = role.find_accumulators(b)
    S = [a for a in accs if a.colour == "SMALL"]
    E = [a for a in accs if a.colour == "LARGE"]
    if len(S) != 1 or len(E) != 1:
        return R.check(rule, EXPAND + "|accumulators", False, where(b), "one widening range start and one widening range end", "found %d / %d" % (len(S), len(E)))
    S, E = S[0], E[0]
    is_root = lambda acc, op: acc.local in roots(b, op, extra=role.COLOUR_TRANSPARENT)
    file_col = lambda op: role.colour_of_origins([o for o in origins(b, op, transparent=role.COLOUR_TRANSPARENT) if o.kind == "call"])
    sig = {}       # (file colour, rel, accumulator colour) -> [(true edges, false edges)], oriented as `file REL acc`
    foreign = []
    for c in comparisons(b):
        for (fop, aop, swap) in ((c.lhs, c.rhs, False), (c.rhs, c.lhs, True)):
            fc = file_col(fop)
            if fc not in ("SMALL", "LARGE") or is_root(S, fop) or is_root(E, fop):
                continue
            acc = S if is_root(S, aop) else (E if is_root(E, aop) else None)
            if acc is None:
                if role.colour(b, aop) in ("SMALL", "LARGE") or any(o.kind == "param" for o in origins(b, aop)):
                    foreign.append("line %s compares a file bound with %s" % (c.line, origins(b, aop)[:2]))
                continue
            rel = SWAP[c.op] if swap else c.op
            sig.setdefault((fc, rel, acc.colour), []).append(([(c.bb, t) for t in c.true_t], [(c.bb, t) for t in c.false_t]))
    # the same comparison written as an Option adapter over one side of the range: `range_start.map_or(false, |s| file_end < s)`.
    # The Option must be the widening accumulator; over the caller's original bound it is a comparison with the unwidened range.
    for call in b.calls():
        if b.is_cleanup(call.bb) or _last(call.name) not in ("map_or", "is_some_and", "map_or_else", "is_none_or") or not call.args:
            continue
        acc = S if is_root(S, call.args[0]) else (E if is_root(E, call.args[0]) else None)
        for cp in call.closure_args():
            cl = P.bodies.get(cp)
            if cl is None:
                continue
            R.analysed(cl)
            for c in _value_comparisons(cl):
                for (fop, aop, swap) in ((c.lhs, c.rhs, False), (c.rhs, c.lhs, True)):
                    fo, ao = origins(cl, fop, transparent=role.COLOUR_TRANSPARENT), origins(cl, aop, transparent=role.COLOUR_TRANSPARENT)
                    if not (any(o.kind == "upvar" for o in fo) and any(o.kind == "param" and o.name == 2 for o in ao)):
                        continue
                    # colour of the captured value: look it up in the parent where the closure is built
                    fc = None
                    for o in fo:
                        if o.kind != "upvar":
                            continue
                        for a in call.args:
                            for po in origins(b, a):
                                if po.kind == "agg" and po.extra is not None and (po.extra[1]["rv"].get("closure") == cp):
                                    rv = po.extra[1]["rv"]
                                    fn_ = rv.get("fields") or []
                                    if o.name in fn_:
                                        fc = file_col(rv["ops"][fn_.index(o.name)])
                    if fc not in ("SMALL", "LARGE"):
                        continue
                    if acc is None:
                        foreign.append("line %s compares a file bound with the caller's original bound (%s over %s)" % (c.line, _last(call.name), origins(b, call.args[0])[:2]))
                        continue
                    rel = SWAP[c.op] if swap else c.op
                    tr, fl = [], []
                    if not call.dest["p"]:
                        for t in bool_tests(b, call.dest["l"]):
                            tr += t.ok_edges()
                            fl += t.err_edges()
                    sig.setdefault((fc, rel, acc.colour), []).append((tr, fl))
    need = {("LARGE", "lt", "SMALL"): "file end < range start (file is before the range)",
            ("SMALL", "gt", "LARGE"): "range end < file start (file is after the range)",
            ("SMALL", "lt", "SMALL"): "file start < range start (widens the start)",
            ("LARGE", "gt", "LARGE"): "file end > range end (widens the end)"}
    missing = [v for k, v in need.items() if k not in sig]
    R.check(rule, EXPAND + "|tests-use-the-widened-range", not missing and not foreign, where(b),
            "the four file-vs-range comparisons are made against the widening accumulators",
            "ok" if not missing and not foreign else "; ".join(["missing: " + m for m in missing] + foreign))
    if missing:
        return
    pushes = [c for c in b.calls() if not b.is_cleanup(c.bb) and _last(c.name) == "push" and "Vec" in (c.name or "")]
    if len(pushes) != 1:
        return R.check(rule, EXPAND + "|fixpoint", False, where(b), "one push of the current file", "%d pushes" % len(pushes))
    push = pushes[0]
    after = b.reachable(push.target)
    heads = [x for x in range(b.n) if x in after and b.dominates(x, push.bb)]
    head = None
    for x in heads:
        if all(b.dominates(y, x) for y in heads):
            head = x
    if head is None:
        return R.check(rule, EXPAND + "|fixpoint", False, where(b), "the push lies in a loop", "no loop head found")
    restarts = [bb for bb in range(b.n) if not b.is_cleanup(bb) for st in b.blocks[bb]["stmts"]
                if st["k"] == "assign" and not st["pl"]["p"] and st["rv"]["k"] == "use" and st["rv"]["ops"][0].get("k") == "const" and
                str(st["rv"]["ops"][0].get("val")) == "0" and bb in after and b.local_ty(st["pl"]["l"]) == "usize" and
                any(d[1] not in after or True for d in b.defs().get(st["pl"]["l"], [])) and st["pl"]["l"] in _index_locals(b, head)]
    s_stores = [d[1] for d in S.loop_defs]
    e_stores = [d[1] for d in E.loop_defs]

    def edges(key, true_side):
        out = []
        for (tr, fl) in sig[key]:
            out += tr if true_side else fl
        return out
    ws_t, ws_f = edges(("SMALL", "lt", "SMALL"), True), edges(("SMALL", "lt", "SMALL"), False)
    we_t, we_f = edges(("LARGE", "gt", "LARGE"), True), edges(("LARGE", "gt", "LARGE"), False)
    # edges on which a side of the caller's range is unbounded (None): nothing to widen there
    none_s, none_e = _none_edges(b, "start", after), _none_edges(b, "end", after)
    level_nonzero = []
    for c in comparisons(b):
        if c.bb in after and any(o.kind == "param" and o.name == 2 for o in c.lhs_origins()) and c.rhs.get("k") == "const" and str(c.rhs.get("val")) == "0":
            level_nonzero += [(c.bb, t) for t in (c.true_t if c.op == "ne" else c.false_t if c.op == "eq" else [])]
    ok_a = b.must_pass(head, through_nodes=restarts, through_edges=ws_f + none_s + level_nonzero, start=push.target)
    ok_b = b.must_pass(head, through_nodes=restarts + e_stores, through_edges=we_f + none_e + level_nonzero, start=push.target)
    R.check(rule, EXPAND + "|an-iteration-that-goes-on-widens-neither-side", ok_a and ok_b, where(b),
            "from the push of a level-0 file the next iteration is reached only through a restart, or over the false / unbounded edges of BOTH widening tests (a wider end may be stored without a restart)",
            "ok" if ok_a and ok_b else "the %s test can be skipped on the way to the next iteration" % ("start-widening" if not ok_a else "end-widening"))
    ok_c = bool(ws_t) and all(b.must_pass(head, through_nodes=[x for x in restarts], start=t) and b.must_pass(head, through_nodes=s_stores, start=t) for (_, t) in ws_t)
    ok_d = bool(we_t) and all(b.must_pass(head, through_nodes=e_stores, start=t) for (_, t) in we_t)
    R.check(rule, EXPAND + "|a-widening-file-widens", ok_c and ok_d and bool(restarts), where(b),
            "`file start < range start` stores the new start and restarts the scan; `file end > range end` stores the new end",
            "ok" if ok_c and ok_d else "start: %s, end: %s (restart blocks %s)" % (ok_c, ok_d, restarts))


class _VCmp:
    def __init__(self, op, lhs, rhs, line):
        self.op, self.lhs, self.rhs, self.line = op, lhs, rhs, line


def _value_comparisons(body):
    """every comparison in body, whether or not its result steers a switch there (a closure usually just returns it)"""
    from ..rules import BINOPS, CMP_CALLS
    from ..cfg import strip_generics
    out = []
    for bb in range(body.n):
        if body.is_cleanup(bb):
            continue
        for st in body.blocks[bb]["stmts"]:
            if st["k"] == "assign" and st["rv"]["k"] == "binop" and st["rv"]["op"] in BINOPS:
                out.append(_VCmp(BINOPS[st["rv"]["op"]], st["rv"]["ops"][0], st["rv"]["ops"][1], st.get("line")))
        t = body.term(bb)
        if t["k"] == "call" and len(t["args"]) == 2:
            nm = strip_generics(t.get("resolved") or t.get("callee"))
            dn = strip_generics(t.get("callee"))
            op = CMP_CALLS.get(nm) or CMP_CALLS.get(dn)
            if op is None and dn and dn.startswith("std::cmp::PartialOrd::"):
                op = {"lt": "lt", "le": "le", "gt": "gt", "ge": "ge"}.get(dn.rsplit("::", 1)[1])
            if op is None and dn and dn.startswith("std::cmp::PartialEq::"):
                op = {"eq": "eq", "ne": "ne"}.get(dn.rsplit("::", 1)[1])
            if op:
                out.append(_VCmp(op, t["args"][0], t["args"][1], t.get("line")))
    return out


def _index_locals(b, head):
    """locals compared with a len() in the loop head (the scan index)"""
    out = set()
    for c in comparisons(b):
        if c.bb in b.reachable(head) and any(o.kind == "call" and _last(o.name) == "len" for o in c.rhs_origins() + c.lhs_origins()):
            for op in (c.lhs, c.rhs):
                out |= set(roots(b, op))
    return out


def _none_edges(b, field, within):
    """edges (inside `within`) on which key_range.<field> is None"""
    out = []
    for c in b.calls():
        if b.is_cleanup(c.bb) or c.bb not in within or _last(c.name) not in ("is_some", "is_none") or not c.args or c.dest["p"]:
            continue
        if not any(o.kind == "param" and field in o.path for o in origins(b, c.args[0])):
            continue
        for t in bool_tests(b, c.dest["l"]):
            out += t.err_edges() if _last(c.name) == "is_some" else t.ok_edges()
    return out


# ------------------------------------------------------------------------------------------- ROLE-4 (fold) the newest manifest record decides a recovered counter
def role4_last_record_wins(P, R, L, rule="ROLE-4"):
    """VersionSet::recover folds the optional counters of every manifest record (current / previous WAL, next file number, last
    sequence) into four accumulators; the manifest is a log, so the value of the LAST record that carries a field is the one to
    restore.  Each in-loop definition of an accumulator takes the record's field - either behind the Some edge of a test of that
    field, or as `record.field.or(accumulator)` with the record on the receiver side.  (`accumulator.or(record.field)` keeps the
    first record's value: the next-file-number counter regresses and a later flush truncates a live table.)"""
    fn = "versioning::version_set::VersionSet::recover"
    r = P.body(fn)
    if r is None:
        return R.missing_anchor(rule, fn)
    R.analysed(r)
    from ..rules import in_cycle
    n = 0
    for fld in ("wal_file_number", "prev_wal_file_number", "curr_file_number", "prev_sequence_number"):
        from_rec = lambda os_: any(fld in o.path for o in os_)
        defs_ok, seen, why = True, 0, "ok"
        for l, dl in r.defs().items():
            if l <= r.nargs or r.local_name(l) is None:
                continue
            loop_defs = [d for d in dl if not r.is_cleanup(d[1]) and in_cycle(r, d[1])]
            if not loop_defs or len(dl) < 2:
                continue
            for d in loop_defs:
                if d[0] == "stmt":
                    rv = d[3]["rv"]
                    ops = rv.get("ops", [])
                    if d[3]["pl"]["p"] or not ops:
                        continue
                    folds = [o for op in ops for o in origins(r, op) if o.kind == "call" and o.site is not None and
                             _last(o.name) in ("or", "or_else", "xor", "and", "and_then", "unwrap_or", "max", "min")]
                    folds = [o for o in folds if any(from_rec(origins(r, a)) for a in o.site.args)]
                    if folds:
                        d = ("call", folds[0].site.bb, None, folds[0].site.t)
                    elif not any(from_rec(origins(r, op)) for op in ops):
                        continue
                    else:
                        seen += 1
                        # a plain copy of the record's field: only behind the Some edge of a test of that field
                        some_edges = []
                        for c in r.calls():
                            if not r.is_cleanup(c.bb) and _last(c.name) in ("is_some", "is_none") and c.args and from_rec(origins(r, c.args[0])) and not c.dest["p"]:
                                for t in bool_tests(r, c.dest["l"]):
                                    some_edges += t.ok_edges() if _last(c.name) == "is_some" else t.err_edges()
                        for bb2 in range(r.n):
                            for st2 in r.blocks[bb2]["stmts"]:
                                if st2["k"] == "assign" and st2["rv"]["k"] == "discr" and from_rec(origins(r, {"k": "copy", "pl": st2["rv"]["pl"]})) and not st2["pl"]["p"]:
                                    for sb in range(r.n):
                                        t = r.term(sb)
                                        if t["k"] == "switch" and t["discr"]["k"] in ("copy", "move") and t["discr"]["pl"]["l"] == st2["pl"]["l"]:
                                            tg = switch_target(t, 1)
                                            if tg is not None:
                                                some_edges.append((sb, tg))
                        if not some_edges or not r.must_pass(d[1], through_edges=some_edges):
                            defs_ok, why = False, "`%s` takes the record's %s without a test that the record carries one (line %s)" % (r.local_name(l), fld, d[3].get("line"))
                        continue
                if d[0] == "call":
                    t = d[3]
                    nm = _last((t.get("resolved") or t.get("callee") or "").split("<")[0]) if t else ""
                    from ..cfg import strip_generics
                    nm = _last(strip_generics(t.get("resolved") or t.get("callee") or ""))
                    args = t["args"]
                    if not any(from_rec(origins(r, a)) for a in args):
                        continue
                    seen += 1
                    if nm in ("or", "or_else") and args and from_rec(origins(r, args[0])):
                        continue
                    defs_ok, why = False, "`%s` is folded with Option::%s and the record's %s is not on the receiver side (line %s): the first record wins" % (
                        r.local_name(l), nm, fld, t.get("line"))
        n += seen
        R.check(rule, "%s|last-record-wins.%s" % (fn, fld), defs_ok and seen > 0, where(r),
                "the accumulator of %s takes the value of every record that carries one (the newest record decides)" % fld,
                why if not defs_ok else ("ok (%d in-loop definitions)" % seen if seen else "no in-loop definition from the record's field"))
    R.floor(rule, "in-loop accumulator definitions in VersionSet::recover", n, 4)


# ------------------------------------------------------------------------------------------- GRD-4 (manifest) nothing is appended to the manifest once an append has failed
COMPACT_TABLES = "compaction::worker::CompactionWorker::compact_tables"


def grd4b_no_manifest_append_under_sticky_error(P, R, L, rule="GRD-4"):
    """A failed manifest append (VersionSet::log_and_apply) records the sticky error and can leave a partially written record at the
    end of the manifest.  Recovery reads a torn TAIL as the end of the log, but a record appended BEHIND torn bytes makes the manifest
    unreadable (strict reader: checksum mismatch) - every acknowledged write becomes inaccessible after a fault that is long gone.
    compaction_task and the writers are gated by GRD-4 already; the table compaction that is in flight when a flush fails is not
    stopped by those gates, so: (a) inside the merge loop of compact_tables a pending immutable memtable is flushed only over the
    None edge of a test of `maybe_bad_database_state`; (b) between the end of the merge and install_compaction_results the sticky
    error is consulted on every path (it flows into the compaction's error status)."""
    from . import common as K
    b = P.body(COMPACT_TABLES)
    if b is None:
        return R.missing_anchor(rule, COMPACT_TABLES)
    R.analysed(b)
    n = 0
    # (a) flushes inside the merge loop (the closure handed to unlocked_fair, or the body itself)
    for x in [b] + _all_closures(b):
        flushes = [c for c in x.calls() if not x.is_cleanup(c.bb) and (c.name or "").endswith("CompactionWorker::compact_memtable")]
        if not flushes:
            continue
        R.analysed(x)
        none_e = K.field_option_edges(x, "maybe_bad_database_state")[1]
        for c in flushes:
            n += 1
            ok = bool(none_e) and x.must_pass(c.bb, through_edges=none_e)
            R.check(rule, "%s|no-flush-retry-under-sticky-error" % x.path, ok, c.where(),
                    "a flush inside a running table compaction is attempted only over the None edge of a test of maybe_bad_database_state (a failed flush is not retried on the next entry)",
                    "ok" if ok else "compact_memtable is reachable without the sticky-error test (None edges: %s)" % none_e)
    R.floor(rule, "flush sites inside compact_tables", n, 1)
    # (b) the install
    installs = [c for c in b.calls() if not b.is_cleanup(c.bb) and (c.name or "").endswith("install_compaction_results")]
    merges = [c for c in b.calls() if not b.is_cleanup(c.bb) and (c.name or "").endswith("unlocked_fair")]
    reads = sorted(field_reads(b, "maybe_bad_database_state"))
    ok = bool(installs) and bool(merges) and bool(reads) and all(
        b.must_pass_fs(i.bb, through_nodes=reads, start=m.target) for i in installs for m in merges if m.target is not None and i.bb in b.reachable(m.target))
    R.check(rule, COMPACT_TABLES + "|sticky-error-consulted-before-install", ok, where(b),
            "every path from the end of the merge to install_compaction_results reads maybe_bad_database_state (a flush that failed during the merge stops the install)",
            "ok (read in blocks %s)" % reads[:4] if ok else "install sites %d, merge sections %d, reads of the sticky error %s" % (len(installs), len(merges), reads[:4]))


def _all_closures(b):
    out, todo = [], [b]
    while todo:
        x = todo.pop()
        for c in x.closures():
            out.append(c)
            todo.append(c)
    return out


# ------------------------------------------------------------------------------------------- PAIR-18 the flush-pending flag mirrors the immutable-memtable slot
def pair18_flush_flag_mirrors_slot(P, R, L, rule="PAIR-18"):
    """`has_immutable_memtable` (an atomic the compaction thread polls without the mutex) is a hint; the truth is the slot
    `maybe_immutable_memtable`, which readers capture under the mutex.  While a flush is in flight the slot holds the only copy of
    the rotated entries.  A reader (DB::get / DB::new_iterator) that makes its capture of the slot depend on the flag is only as
    good as the flag: decided here is the CONJUNCTION - if a reader consults the flag, then every site that lowers it is dominated
    by the emptying of the slot (take() / `= None`) in the same function.  Either half alone leaves behaviour unchanged (under the
    mutex flag and slot agree; nobody but the compaction loop reads an early-lowered flag) and is accepted."""
    readers = []
    for fn in ("db::DB::get", "db::DB::new_iterator"):
        b = P.body(fn)
        if b is None:
            R.missing_anchor(rule, fn)
            continue
        R.analysed(b)
        for x in [b] + _all_closures(b):
            for c in x.calls():
                if not x.is_cleanup(c.bb) and _last(c.name) == "load" and ("AtomicBool" in (c.name or "") or "atomic::Atomic" in (c.name or "")) and c.args and \
                        any("has_immutable_memtable" in o.path or (o.kind == "upvar" and o.name == "has_immutable_memtable") for o in origins(x, c.args[0])):
                    readers.append("%s (line %s)" % (fn, c.t.get("line")))
    n_low, early = 0, []
    for p, b in sorted(P.bodies.items()):
        for c in b.calls():
            if b.is_cleanup(c.bb) or _last(c.name) != "store" or not ("AtomicBool" in (c.name or "") or "atomic::Atomic" in (c.name or "")) or len(c.args) < 2:
                continue
            if not any("has_immutable_memtable" in o.path or (o.kind == "upvar" and o.name == "has_immutable_memtable") for o in origins(b, c.args[0])):
                continue
            val = c.args[1]
            if not (val.get("k") == "const" and str(val.get("val")) in ("0", "false")):
                continue
            n_low += 1
            R.analysed(b)
            clears = [x.bb for x in b.calls() if not b.is_cleanup(x.bb) and _last(x.name) == "take" and x.args and
                      any("maybe_immutable_memtable" in o.path for o in origins(b, x.args[0]))]
            for (bb, i, st) in field_stores(b, "maybe_immutable_memtable"):
                rv = st["rv"]
                if rv["k"] == "aggregate" and rv.get("variant") == "None":
                    clears.append(bb)
                elif rv["k"] == "use" and any(o.kind == "agg" and (o.name or "").endswith("None") for o in origins(b, rv["ops"][0])):
                    clears.append(bb)
            if not (clears and b.must_pass(c.bb, through_nodes=clears)):
                early.append("%s (line %s)" % (p, c.t.get("line")))
    R.floor(rule, "sites that lower has_immutable_memtable", n_low, 1)
    ok = not (readers and early)
    R.check(rule, "db::DB|a-reader-that-trusts-the-flush-flag-needs-a-flag-that-mirrors-the-slot", ok, "src/db.rs",
            "no reader makes its capture of maybe_immutable_memtable depend on has_immutable_memtable while some site lowers that flag before the slot is emptied",
            "ok (readers consulting the flag: %d; early lowering sites: %d)" % (len(readers), len(early)) if ok else
            "%s consults the flag, and %s lowers it while the slot still holds the memtable" % (readers[0], early[0]))


# ------------------------------------------------------------------------------------------- PAIR-8 (skip key) a backward-to-forward turn keeps the key that is being shown
def pair8d_reversal_keeps_shown_key(P, R, L, rule="PAIR-8"):
    """DatabaseIterator::next after backward travel: `cached_user_key` holds the user key of the entry the client is looking at, and
    the inner iterator stands BEFORE that key's records.  find_next_client_entry(true) skips everything up to and including the
    cached key - so between the `direction == Backward` edge and that call the cached key is not replaced by a key read from the
    inner iterator (the record in front of the shown key may belong to a key that is invisible at this snapshot: the forward
    search would then stop on the shown key again)."""
    from . import common as K
    fn = "<iterator::DatabaseIterator as iterator::RainDbIterator>::next"
    b = P.body(fn)
    if b is None:
        return R.missing_anchor(rule, fn)
    R.analysed(b)
    hs = K.static_sites_reaching(P, b, "iterator::DatabaseIterator::find_next_client_entry")
    e = K.variant_edges(P, b, "iterator::DbIterationDirection", "Backward", K.origin_pred_field("direction"))
    stores = []
    for (bb, i, st) in field_stores(b, "cached_user_key"):
        rv = st["rv"]
        is_none = (rv["k"] == "aggregate" and rv.get("variant") == "None") or \
            (rv["k"] == "use" and any(o.kind == "agg" and (o.name or "").endswith("None") for o in origins(b, rv["ops"][0])) and
             not any(o.kind == "agg" and (o.name or "").endswith("Some") for o in origins(b, rv["ops"][0])))
        if not is_none:
            stores.append(bb)
    bad = []
    for (sb, tg) in e:
        r = b.reachable(tg)
        for s in stores:
            if s in r and any(h.bb in b.reachable(s) for h in hs):
                bad.append(b.blocks[s]["stmts"][0].get("line") if b.blocks[s]["stmts"] else s)
    ok = bool(hs) and bool(e) and not bad
    R.check(rule, fn + "|reversal-keeps-the-shown-key", ok, where(b),
            "from the `direction == Backward` edge to find_next_client_entry no key is stored into cached_user_key",
            "ok (direction edges %d, other stores %d)" % (len(e), len(stores)) if ok else
            ("cached_user_key is overwritten on the reversal path (line %s)" % bad[0] if bad else "helper sites %d, direction edges %d" % (len(hs), len(e))))


# ------------------------------------------------------------------------------------------- PAIR-8 the skip flag of the forward search
SKIP_FLAG = (("<iterator::DatabaseIterator as iterator::RainDbIterator>::seek", False),
             ("<iterator::DatabaseIterator as iterator::RainDbIterator>::seek_to_first", False),
             ("<iterator::DatabaseIterator as iterator::RainDbIterator>::next", True))


def _none_store(b, st):
    rv = st["rv"]
    return (rv["k"] == "aggregate" and rv.get("variant") == "None") or \
        (rv["k"] == "use" and any(o.kind == "agg" and (o.name or "").endswith("None") for o in origins(b, rv["ops"][0])) and
         not any(o.kind == "agg" and (o.name or "").endswith("Some") for o in origins(b, rv["ops"][0])))


def pair8e_skip_flag_matches_the_move(P, R, L, rule="PAIR-8"):
    """find_next_client_entry(initial_is_skipping): `true` means `skip every record up to and including cached_user_key`.  That is
    right when the client steps OFF a key (next: the saved key is the key being left) and wrong when it POSITIONS (seek,
    seek_to_first: the first visible record at or after the position must be shown, and the saved key may be a leftover of an
    earlier backward move or of a seek past the end - the search would skip visible keys up to it).  Decided per call site: the
    flag is the constant the move needs; a positioning move may also pass `true` once it has cleared the saved key."""
    helper = "iterator::DatabaseIterator::find_next_client_entry"
    for fn, want in SKIP_FLAG:
        b = P.body(fn)
        if b is None:
            R.missing_anchor(rule, fn)
            continue
        R.analysed(b)
        sites = [c for c in b.calls() if not b.is_cleanup(c.bb) and c.name == helper and len(c.args) == 2]
        R.floor(rule, "forward-search calls in " + fn, len(sites), 1)
        for c in sites:
            os_ = origins(b, c.args[1])
            vals = {str(o.name).lower() for o in os_ if o.kind == "const"}
            known = bool(os_) and all(o.kind == "const" for o in os_) and vals <= {"true", "false", "0", "1"}
            flag = None if not known or len({v in ("true", "1") for v in vals}) != 1 else (vals & {"true", "1"} != set())
            ok = flag is want
            if not ok and want is False and flag is True:
                nones = [bb for (bb, i, st) in field_stores(b, "cached_user_key") if _none_store(b, st)]
                somes = [bb for (bb, i, st) in field_stores(b, "cached_user_key") if not _none_store(b, st)]
                ok = bool(nones) and b.must_pass(c.bb, through_nodes=nones) and \
                    not any(s in b.reachable(n) and c.bb in b.reachable(s) for n in nones for s in somes)
            R.check(rule, fn + "|skip-flag", ok, c.where(),
                    "find_next_client_entry(%s)%s" % (str(want).lower(), "" if want else " (or `true` after the saved key was cleared)"),
                    "flag = %s" % ("not a constant" if flag is None else str(flag).lower()))


# ------------------------------------------------------------------------------------------- SEP-1 a shortened index key is used only when it is shorter AND larger
SEP_FUNCTIONS = ["<&key::InternalKey as utils::bytes::BinarySeparable>::find_shortest_separator",
                 "<&key::InternalKey as utils::bytes::BinarySeparable>::find_shortest_successor"]


def sep1_shortened_key_is_guarded(P, R, L, rule="SEP-1"):
    """The InternalKey-level separator / successor (the keys of a table's index entries, PAIR-13) replace the last key of a block by
    `shortened user key @ MAX_SEQUENCE_NUMBER` only when the byte-level helper really produced something shorter AND larger than the
    user key; otherwise they return the key itself.  (For an empty or all-0xff user key, or when one key is a prefix of the other,
    the byte-level helper returns its input: the same user key at MAX_SEQUENCE_NUMBER sorts BEFORE the last key of the block, and an
    index key below its block makes seeks and point lookups skip the block.)  Decided: the `new_for_seeking` call lies behind the
    true edges of both tests - `len(shortened) < len(user key)` and `user key < shortened`."""
    n = 0
    for fn in SEP_FUNCTIONS:
        b = P.body(fn)
        if b is None:
            R.missing_anchor(rule, fn)
            continue
        R.analysed(b)
        n += 1
        mk = [c for c in b.calls() if not b.is_cleanup(c.bb) and (c.name or "").endswith("InternalKey::new_for_seeking")]
        is_len = lambda os_: bool(os_) and all(o.kind == "call" and _last(o.name) == "len" for o in os_)
        helper = "find_shortest_separator" if fn.endswith("separator") else "find_shortest_successor"
        from_helper = lambda os_: any(o.kind == "call" and _last(o.name) == helper for o in os_)
        from_key = lambda os_: any(o.kind == "call" and _last(o.name) == "get_user_key" for o in os_) and not from_helper(os_)
        shorter, larger = [], []
        for c in comparisons(b):
            lo, ro = c.lhs_origins(), c.rhs_origins()
            if is_len(lo) and is_len(ro):
                # len(shortened) < len(user key): which side is which is told by the receiver of len()
                l_h = any(from_helper(follow(b, o.site.args[0], through=("deref", "as_slice", "as_ref"))) for o in lo if o.site is not None)
                r_h = any(from_helper(follow(b, o.site.args[0], through=("deref", "as_slice", "as_ref"))) for o in ro if o.site is not None)
                if l_h and not r_h and c.op == "lt":
                    shorter += [(c.bb, t) for t in c.true_t]
                elif r_h and not l_h and c.op == "gt":
                    shorter += [(c.bb, t) for t in c.true_t]
                elif l_h and not r_h and c.op == "ge":
                    shorter += [(c.bb, t) for t in c.false_t]
                elif r_h and not l_h and c.op == "le":
                    shorter += [(c.bb, t) for t in c.false_t]
            else:
                lk, rk = from_key(follow(b, c.lhs, through=("deref",))), from_key(follow(b, c.rhs, through=("deref",)))
                lh, rh = from_helper(follow(b, c.lhs, through=("deref", "as_slice"))), from_helper(follow(b, c.rhs, through=("deref", "as_slice")))
                if lk and rh and c.op == "lt":
                    larger += [(c.bb, t) for t in c.true_t]
                elif lh and rk and c.op == "gt":
                    larger += [(c.bb, t) for t in c.true_t]
                elif lk and rh and c.op == "ge":
                    larger += [(c.bb, t) for t in c.false_t]
                elif lh and rk and c.op == "le":
                    larger += [(c.bb, t) for t in c.false_t]
        ok = bool(mk) and bool(shorter) and bool(larger) and all(b.must_pass(c.bb, through_edges=shorter) and b.must_pass(c.bb, through_edges=larger) for c in mk)
        R.check(rule, fn + "|shortened-key-only-when-shorter-and-larger", ok, where(b),
                "InternalKey::new_for_seeking(shortened user key, ..) is reached only over `len(shortened) < len(user key)` and `user key < shortened`",
                "ok" if ok else "constructor sites %d, `shorter` edges %d, `larger` edges %d" % (len(mk), len(shorter), len(larger)))
    R.floor(rule, "InternalKey-level separator functions checked", n, 2)


# ------------------------------------------------------------------------------------------- LVL-2 the base-level scan starts two levels below the compaction level
def _level_plus(P, b, op, depth=6):
    """(constant, base) if the operand is `<compaction level> + constant` (through helpers that add to the level), else None"""
    if op.get("k") == "const":
        return None
    os_ = origins(b, op)
    if not os_:
        return None
    res = set()
    for o in os_:
        if o.kind == "binop" and o.name in ("Add", "AddWithOverflow", "AddUnchecked") and o.extra is not None:
            ops = o.extra[1]["rv"]["ops"]
            consts = [x for x in ops if x.get("k") == "const"]
            others = [x for x in ops if x.get("k") != "const"]
            if len(consts) == 1 and len(others) == 1 and depth > 0:
                inner = _level_plus(P, b, others[0], depth - 1)
                if inner is None:
                    return None
                res.add((inner[0] + int(consts[0].get("val")), inner[1]))
            else:
                return None
        elif o.kind == "call" and (o.name or "").endswith("CompactionManifest::level"):
            res.add((0, "level"))
        elif o.kind == "call" and o.site is not None and depth > 0 and P.bodies.get(o.site.t.get("resolved") or "") is not None and \
                "CompactionManifest" in (o.name or ""):
            h = P.bodies[o.site.t["resolved"]]
            inner = _level_plus(P, h, {"k": "copy", "pl": {"l": 0, "p": []}}, depth - 1)
            if inner is None:
                return None
            res.add(inner)
        elif o.kind == "param" and "level" in o.path:
            res.add((0, "level"))
        else:
            return None
    return res.pop() if len(res) == 1 else None


def lvl2_base_level_scan_start(P, R, L, rule="LVL-2"):
    """CompactionManifest::is_base_level_for_key answers "does any level BELOW the output level hold this user key": the output level
    is `level + 1`, so the scan over the levels starts at exactly `level + 2` (however the expression is spelled: `self.level() + 2`,
    `self.output_level() + 1`).  Starting one level further down skips the grandparent level: a tombstone is dropped while the value it
    hides sits right there."""
    fn = "compaction::manifest::CompactionManifest::is_base_level_for_key"
    b = P.body(fn)
    if b is None:
        return R.missing_anchor(rule, fn)
    R.analysed(b)
    starts = []
    for bb in range(b.n):
        if b.is_cleanup(bb):
            continue
        for st in b.blocks[bb]["stmts"]:
            if st["k"] == "assign" and st["rv"]["k"] == "aggregate" and (st["rv"].get("adt") or "").endswith("ops::Range") and len(st["rv"]["ops"]) == 2:
                starts.append((st["rv"]["ops"][0], st.get("line")))
    vals = [(_level_plus(P, b, op), ln) for (op, ln) in starts]
    ok = len(vals) == 1 and vals[0][0] == (2, "level")
    R.check(rule, fn + "|scan-starts-at-level-plus-two", ok, where(b),
            "the range over the deeper levels starts at <compaction level> + 2", "ok" if ok else "range starts: %s" % vals)


# ------------------------------------------------------------------------------------------- ROLE-3 (snapshot) a file is written into the manifest snapshot under the level it sits at
BAD_BEFORE_ENUMERATE = ("filter", "filter_map", "skip", "skip_while", "take_while", "step_by", "rev", "chain", "flat_map", "flatten", "peekable_skip")


def role3_snapshot_levels(P, R, L, rule="ROLE-3"):
    """VersionSet::write_snapshot re-creates the current version in a fresh manifest: every file is recorded with
    `add_file(level, ..)` where `level` is the position of its list in `Version::files`.  Decided: the level argument is the
    variable of a range loop over the levels, or the index of an `enumerate()` whose source is the plain list of levels - an adapter
    that drops or reorders elements in front of the `enumerate` (filter out the empty levels, skip, rev) renumbers the levels: after
    the next reopen a level-2 table is reported (and searched, and compacted) as level 0."""
    fn = "versioning::version_set::VersionSet::write_snapshot"
    b = P.body(fn)
    if b is None:
        return R.missing_anchor(rule, fn)
    R.analysed(b)
    adds = [c for c in b.calls() if not b.is_cleanup(c.bb) and (c.name or "").endswith("VersionChangeManifest::add_file")]
    ok, found = bool(adds), "no add_file call"
    for c in adds:
        os_ = origins(b, c.args[1])
        names = [o.name or "" for o in os_ if o.kind == "call"]
        from_range = any("ops::Range" in n and _last(n) == "next" for n in names) or any("range::" in n and _last(n) == "next" for n in names)
        from_enum = any("Enumerate" in n and _last(n) == "next" for n in names)
        if from_range:
            found = "ok (range loop variable)"
            continue
        if from_enum:
            bad = []
            for e in b.calls():
                if b.is_cleanup(e.bb) or _last(e.name) != "enumerate" or not e.args:
                    continue
                chain, todo = [], [e.args[0]]
                for _ in range(8):
                    nxt = []
                    for op in todo:
                        for o in origins(b, op):
                            if o.kind == "call" and o.site is not None and o.site.args:
                                chain.append(_last(o.name))
                                nxt.append(o.site.args[0])
                    todo = nxt
                bad += [x for x in chain if x in BAD_BEFORE_ENUMERATE]
            if bad:
                ok, found = False, "the level is the index of an enumerate() behind %s" % sorted(set(bad))
            else:
                found = "ok (enumerate over the plain list of levels)"
            continue
        ok, found = False, "the level argument derives from %s" % os_[:3]
    R.check(rule, fn + "|snapshot-level-is-the-position-in-the-version", ok, where(b),
            "add_file's level is a range-loop variable over the levels or the index of an enumerate() over the unfiltered list of levels", found)


# ------------------------------------------------------------------------------------------- ORD-8b (width) the published sequence span is not narrowed
NARROW = ("u32", "u16", "u8", "i32", "i16", "i8")


def narrowing_casts(b, op, depth=10, seen=None):
    """integer casts to a type narrower than 64 bits on the def chain of an operand (through copies, casts, From/Into conversions and
    additions), as (type, line)"""
    seen = seen if seen is not None else set()
    out = []
    if op.get("k") not in ("copy", "move") or depth <= 0:
        return out
    l = op["pl"]["l"]
    if l in seen:
        return out
    seen.add(l)
    for d in b.defs().get(l, []):
        if d[0] == "stmt":
            rv = d[3]["rv"]
            if rv["k"] == "cast":
                if rv.get("ty") in NARROW and rv.get("ck", "IntToInt") == "IntToInt":
                    out.append((rv.get("ty"), d[3].get("line")))
                out += narrowing_casts(b, rv["ops"][0], depth - 1, seen)
            elif rv["k"] in ("use", "binop", "unop"):
                for x in rv.get("ops", []):
                    out += narrowing_casts(b, x, depth - 1, seen)
        elif d[0] == "call":
            t = d[3]
            nm = _last((t.get("callee") or "").split("<")[0]) if t.get("callee") else ""
            from ..cfg import strip_generics
            full = strip_generics(t.get("resolved") or t.get("callee") or "")
            if _last(full) in ("from", "into", "try_from", "try_into", "unwrap", "expect", "unwrap_or", "unwrap_or_default") and t["args"]:
                # `u16::try_from(len)` / `u64::from(x)`: a conversion whose TARGET is narrow is a narrowing as well
                dest_ty = b.local_ty(t["dest"]["l"]) if not t["dest"]["p"] else ""
                if _last(full) in ("try_from", "try_into") and any(("<%s," % n) in dest_ty or dest_ty.startswith("std::result::Result<%s," % n) for n in NARROW):
                    out.append((dest_ty, t.get("line")))
                out += narrowing_casts(b, t["args"][0], depth - 1, seen)
    return out


def ord8b_span_not_narrowed(P, R, L, rule="ORD-8b"):
    """The sequence number published after a group commit is prev + len(batch) at full width: the batch length reaches the
    addition without an integer cast / conversion to a type narrower than 64 bits.  (The memtable insert numbers the operations
    with a u64 counter: a published span that wraps at 2^16 leaves the tail of a large batch invisible, and later writes then
    reveal it one operation at a time.)"""
    from . import common as K
    b = P.body(K.APPLY)
    if b is None:
        return R.missing_anchor(rule, K.APPLY)
    R.analysed(b)
    pubs = K.normal_sites(b, K.SET_PREV_SEQ)
    starts = K.normal_sites(b, "batch::Batch::set_starting_seq_number")
    bad = []
    for c in pubs + starts:
        bad += narrowing_casts(b, c.args[1])
    R.check(rule, K.APPLY + "|sequence-span-at-full-width", bool(pubs) and not bad, where(b),
            "the values handed to set_prev_sequence_number / set_starting_seq_number are computed without a cast to fewer than 64 bits",
            "ok" if pubs and not bad else "narrowed: %s" % bad[:3])


# ------------------------------------------------------------------------------------------- ORD-9b the writer looks up the memtable after it made room
def ord9b_memtable_loaded_after_make_room(P, R, L, rule="ORD-9b"):
    """DB::apply_changes: `make_room_for_write` may rotate the memtable (the old one becomes immutable and is flushed by the
    compaction thread).  The memtable the group's batch is inserted into is therefore loaded (`DB::memtable()` = the ArcSwap load)
    AFTER make_room_for_write returned - in the body behind that call, or inside the unlocked section, which itself lies behind
    it.  A pointer captured before the rotation inserts the batch into the memtable that is being flushed: the flush has already
    walked past some of its keys, and readers see part of the batch (or lose it with the WAL of that memtable)."""
    from . import common as K
    b = P.body(K.APPLY)
    if b is None:
        return R.missing_anchor(rule, K.APPLY)
    R.analysed(b)
    rooms = [c for c in b.calls() if not b.is_cleanup(c.bb) and (c.name or "").endswith("DB::make_room_for_write")]
    if not rooms:
        return R.check(rule, K.APPLY + "|memtable-loaded-after-make-room", False, where(b), "a make_room_for_write call", "none")
    bad, n = [], 0
    for x in [b] + _all_closures(b):
        for c in x.calls():
            if x.is_cleanup(c.bb) or not (c.name or "").endswith("DB::memtable"):
                continue
            n += 1
            if x is b:
                if not b.must_pass(c.bb, through_nodes=[r.bb for r in rooms]):
                    bad.append("DB::memtable() at line %s can run before make_room_for_write" % c.t.get("line"))
            else:
                # inside a closure: the site that receives the closure lies behind make_room_for_write
                sites = [s for s in b.calls() if not b.is_cleanup(s.bb) and x.path in s.closure_args()]
                top = x
                while not sites and top.parent and top.parent != b.path and P.bodies.get(top.parent) is not None:
                    top = P.bodies[top.parent]
                    sites = [s for s in b.calls() if not b.is_cleanup(s.bb) and top.path in s.closure_args()]
                if not sites or not all(b.must_pass(s.bb, through_nodes=[r.bb for r in rooms]) for s in sites):
                    bad.append("the closure %s that loads the memtable can run before make_room_for_write" % x.path.rsplit("::", 1)[-1])
    R.check(rule, K.APPLY + "|memtable-loaded-after-make-room", n > 0 and not bad, where(b),
            "every DB::memtable() load of the write path lies behind make_room_for_write", "ok (%d loads)" % n if n and not bad else "; ".join(bad) or "no load found")


# ------------------------------------------------------------------------------------------- GRD-15 (name) the filter block is filed under the policy's name
def grd15b_filter_block_name_carries_the_policy(P, R, L, rule="GRD-15"):
    """The filter block of a table is filed in the metaindex under `filter.<policy name>`, and the reader only uses a block whose
    key equals the name of the CONFIGURED policy (GRD-15).  That guard is only as good as the name: get_filter_block_name's result
    derives from FilterPolicy::get_name of its argument.  With a constant name a table written under one policy is probed with the
    bits of another after a reopen with changed options - every key of the old tables is `not in this file`."""
    fn = "filter_policy::get_filter_block_name"
    b = P.body(fn)
    if b is None:
        return R.missing_anchor(rule, fn)
    R.analysed(b)
    names = [c for c in b.calls() if not b.is_cleanup(c.bb) and (c.declared_name or c.name or "").endswith("FilterPolicy::get_name")]
    on_param = [c for c in names if c.args and any(o.kind == "param" and o.name == 1 for o in follow(b, c.args[0], through=ADAPTERS + ("as_ref", "deref")))]
    # the name reaches the returned string: some call that produced _0 (or fed it) takes the name as an operand
    flows = False
    if on_param:
        name_locals = set()
        for c in on_param:
            if not c.dest["p"]:
                name_locals.add(c.dest["l"])
        seen, todo = set(), [{"l": 0, "p": []}]
        for _ in range(12):
            nxt = []
            for x in todo:
                for o in origins(b, x):
                    if o.kind == "call" and o.site is not None and o.site.bb not in seen:
                        seen.add(o.site.bb)
                        if any(o.site.bb == c.bb for c in on_param):
                            flows = True
                        nxt += list(o.site.args)
                    elif o.kind == "agg" and o.extra is not None:
                        nxt += list(o.extra[1]["rv"].get("ops", []))
            todo = nxt
    if on_param and not flows:
        # the builder form: `let mut s = String::from(PREFIX); s.push_str(&name); s` - the name reaches the result through a call
        # that takes `&mut s` for a local s of the result's chain
        def _mut_target(op):
            if op["k"] not in ("copy", "move") or op["pl"]["p"]:
                return None
            for d in b.defs().get(op["pl"]["l"], []):
                if d[0] == "stmt" and d[3]["rv"]["k"] == "ref" and d[3]["rv"].get("mut") and not d[3]["rv"]["pl"]["p"]:
                    return d[3]["rv"]["pl"]["l"]
            return None
        chain, todo = {0}, [0]
        while todo:
            l = todo.pop()
            for d in b.defs().get(l, []):
                if d[0] == "stmt" and d[3]["rv"]["k"] == "use" and d[3]["rv"]["ops"][0]["k"] in ("copy", "move") and not d[3]["rv"]["ops"][0]["pl"]["p"]:
                    m = d[3]["rv"]["ops"][0]["pl"]["l"]
                    if m not in chain:
                        chain.add(m)
                        todo.append(m)
        for c in b.calls():
            if b.is_cleanup(c.bb) or not c.args or _mut_target(c.args[0]) not in chain:
                continue
            for a in c.args[1:]:
                if any(o.kind == "call" and o.site is not None and any(o.site.bb == n.bb for n in on_param) for o in origins(b, a)):
                    flows = True
    R.check(rule, fn + "|name-carries-the-policy", bool(on_param) and flows, where(b),
            "the returned name derives from FilterPolicy::get_name() of the policy argument", "ok" if on_param and flows else
            "get_name calls on the argument: %d, flows into the result: %s" % (len(on_param), flows))


# ------------------------------------------------------------------------------------------- ORD-10b the compaction thread ends only on Terminate
WORKER_LOOP = "compaction::worker::CompactionWorker::new::{closure#0}"


def ord10b_worker_leaves_only_on_terminate(P, R, L, rule="ORD-10b"):
    """The compaction thread leaves its task loop only because it RECEIVED the Terminate command.  `Drop for DB` sets
    `is_shutting_down`, then waits until `background_compaction_scheduled` is false, and only then sends Terminate: a thread that
    also leaves as soon as it sees `is_shutting_down` can exit with a Compaction task still in the channel (scheduled between its
    last drain of the channel and its look at the flag) - nobody clears the scheduled flag and closing the database never
    returns.  Decided flag-sensitively from the entry of the thread body: every return passes the Terminate edge of the match on
    the task kind."""
    # the thread body: THE closure of CompactionWorker::new that receives from the task channel (closures are numbered in source
    # order - the number is not part of its identity)
    cands = [bd for p_, bd in sorted(P.bodies.items()) if p_.startswith("compaction::worker::CompactionWorker::new::{closure#") and p_.endswith("}") and
             any((c.name or "").endswith("Receiver::recv") and not bd.is_cleanup(c.bb) for c in bd.calls())]
    b = cands[0] if len(cands) == 1 else None
    if b is None:
        return R.missing_anchor(rule, WORKER_LOOP)
    R.analysed(b)
    enum = {n: int(v) for n, v in P.facts.get("enums", {}).get("compaction::worker::TaskKind", [])}
    term = enum.get("Terminate")
    term_edges = []
    for bb in range(b.n):
        for st in b.blocks[bb]["stmts"]:
            if st["k"] == "assign" and st["rv"]["k"] == "discr" and not st["pl"]["p"] and "TaskKind" in (b.local_ty(st["rv"]["pl"]["l"]) or ""):
                for sb in range(b.n):
                    t = b.term(sb)
                    if t["k"] == "switch" and t["discr"]["k"] in ("copy", "move") and t["discr"]["pl"]["l"] == st["pl"]["l"]:
                        listed = {int(v) for v, _ in t["targets"]}
                        for v, tg in t["targets"]:
                            if int(v) == term:
                                term_edges.append((sb, tg))
                        if term is not None and term not in listed and t.get("otherwise") is not None and len(enum) - len(listed) == 1:
                            term_edges.append((sb, t["otherwise"]))
    recvs = [c for c in b.calls() if not b.is_cleanup(c.bb) and (c.name or "").endswith("Receiver::recv")]
    rets = b.return_blocks()
    bad = []
    for c in recvs:
        if c.target is None:
            continue
        for r in rets:
            if not b.must_pass_fs(r, through_edges=term_edges):
                bad.append(r)
    ok = bool(recvs) and bool(term_edges) and not bad
    R.check(rule, WORKER_LOOP + "|thread-ends-only-on-terminate", ok, "src/compaction/worker.rs",
            "from a received task the thread's return is reached only over the Terminate arm of the match on the task kind",
            "ok" if ok else "recv sites %d, Terminate edges %d, returns reachable without Terminate: %s" % (len(recvs), len(term_edges), bad[:2]))


# ------------------------------------------------------------------------------------------- PAIR-6 (own batch) a follower's own batch joins the group
def pair6b_appended_batch_is_the_writers_own(P, R, L, rule="PAIR-6"):
    """build_group_commit_batch: inside the grouping loop the batch that is appended to the group and the writer that becomes the
    group's last writer are taken from the SAME queue entry - the item the loop's iterator just yielded.  (`first_writer.maybe_batch()`
    in the loop appends the leader's batch once more for every follower and drops the followers' batches, which are then
    acknowledged with the group's Ok.)"""
    from ..rules import in_cycle
    fn = "db::DB::build_group_commit_batch"
    b = P.body(fn)
    if b is None:
        return R.missing_anchor(rule, fn)
    R.analysed(b)
    apps = [c for c in b.calls() if not b.is_cleanup(c.bb) and (c.name or "").endswith("Batch::append_batch") and in_cycle(b, c.bb)]

    def item_sources(op, depth=8):
        """does the operand derive from the item of an iterator `next()` call inside the loop?"""
        todo, seen = [op], set()
        for _ in range(depth):
            nxt = []
            for x in todo:
                for o in origins(b, x):
                    if o.kind == "call" and o.site is not None:
                        if _last(o.name) == "next" and in_cycle(b, o.site.bb):
                            return True
                        if o.site.bb not in seen:
                            seen.add(o.site.bb)
                            nxt += [a for a in o.site.args[:1]]
            todo = nxt
        return False
    bad = [c.t.get("line") for c in apps if not item_sources(c.args[1])]
    R.check(rule, fn + "|appended-batch-is-the-queued-writers-own", bool(apps) and not bad, "src/db.rs",
            "the batch appended inside the grouping loop derives from the queue entry the loop's iterator yielded",
            "ok (%d append sites in the loop)" % len(apps) if apps and not bad else "append at line %s takes its batch from somewhere else" % bad[:2])


# ------------------------------------------------------------------------------------------- PAIR-9 (chain) the boundary search continues from the largest key
def pair9c_boundary_search_continues_from_the_largest_key(P, R, L, rule="PAIR-9"):
    """CompactionManifest::add_boundary_inputs: the boundary search (`find_smallest_boundary_file(level files, key)`: the file that
    starts with later versions of `key`'s user key) is keyed by the LARGEST key of the input set, and after a boundary file was
    added it continues from THAT file's largest key - every definition of the search key derives from find_largest_key(..) or
    from FileMetadata::largest_key().  Continuing from the smallest key of the file just added stops the chain after one link:
    older versions of a user key stay behind in level L while newer ones move to L + 1."""
    from .. import role
    fn = "compaction::manifest::CompactionManifest::add_boundary_inputs"
    b = P.body(fn)
    if b is None:
        return R.missing_anchor(rule, fn)
    R.analysed(b)
    finds = [c for c in b.calls() if not b.is_cleanup(c.bb) and (c.name or "").endswith("find_smallest_boundary_file")]
    bad, n = [], 0
    for c in finds:
        for l in roots(b, c.args[1]):
            for d in b.defs().get(l, []):
                if b.is_cleanup(d[1]):
                    continue
                if d[0] == "stmt":
                    rv = d[3]["rv"]
                    ops = rv.get("ops", [])
                    os_ = [o for op in ops for o in origins(b, op, transparent=role.COLOUR_TRANSPARENT)] if ops else (origins(b, rv["pl"], transparent=role.COLOUR_TRANSPARENT) if rv["k"] == "ref" else [])
                elif d[0] == "call":
                    os_ = origins(b, {"l": l, "p": []}, transparent=role.COLOUR_TRANSPARENT)
                else:
                    continue
                calls = {_last(o.name) for o in os_ if o.kind == "call"}
                if not calls:
                    continue
                n += 1
                if not (calls & {"largest_key", "find_largest_key"}) or (calls & {"smallest_key"}):
                    bad.append("line %s: the search key derives from %s" % ((d[3].get("line") if d[0] == "stmt" else d[3].get("line")), sorted(calls)))
    R.check(rule, fn + "|boundary-search-keyed-by-largest-keys", bool(finds) and n > 0 and not bad, "src/compaction/manifest.rs",
            "every definition of the key handed to find_smallest_boundary_file derives from find_largest_key / largest_key()",
            "ok (%d definitions)" % n if finds and n and not bad else "; ".join(bad) or "no definition found")
