"""Program / Body model over factgen facts: CFG algebra, dominators, control dependence,
def-use origins, flag-sensitive path exploration, call graph."""
import re
from collections import defaultdict, deque


def strip_generics(s):
    """`Foo::<A, B>::bar` -> `Foo::bar` (drops ::<...> groups, balanced)."""
    if s is None:
        return None
    out = []
    depth = 0
    i = 0
    n = len(s)
    while i < n:
        if s.startswith("::<", i) and depth == 0 and not _is_qualified_self(s, i):
            depth = 1
            i += 3
            while i < n and depth > 0:
                if s[i] == "<":
                    depth += 1
                elif s[i] == ">":
                    if i > 0 and s[i - 1] == "-":  # '->'
                        pass
                    else:
                        depth -= 1
                i += 1
            continue
        out.append(s[i])
        i += 1
    return "".join(out)


def _is_qualified_self(s, i):
    return False


class CallSite:
    __slots__ = ("body", "bb", "t", "callee", "declared", "line", "_closures")

    def __init__(self, body, bb, t):
        self.body = body
        self.bb = bb
        self.t = t
        self.declared = t.get("callee")
        self.callee = t.get("resolved") or t.get("callee")
        self.line = t.get("line")
        self._closures = None

    @property
    def args(self):
        return self.t["args"]

    @property
    def dest(self):
        return self.t["dest"]

    @property
    def target(self):
        return self.t.get("target")

    @property
    def name(self):
        return strip_generics(self.callee)

    @property
    def declared_name(self):
        return strip_generics(self.declared)

    @property
    def self_adt(self):
        return self.t.get("self_adt")

    @property
    def self_ty(self):
        return self.t.get("self_ty")

    def closure_args(self):
        """Def paths of closures passed (directly, by value or by reference) as arguments."""
        if self._closures is None:
            res = []
            for a in self.args:
                for c in self.body.closure_of_operand(a):
                    res.append(c)
            self._closures = res
        return self._closures

    def where(self):
        return "%s:%s" % (self.body.file, self.line)

    def __repr__(self):
        return "<call %s @%s bb%d>" % (self.name, self.where(), self.bb)


class Body:
    def __init__(self, path, rec, prog):
        self.path = path
        self.rec = rec
        self.prog = prog
        self.kind = rec["kind"]
        self.parent = rec.get("parent")
        self.direct_parent = rec.get("direct_parent")
        self.file = rec["file"]
        self.line_lo = rec["line_lo"]
        self.line_hi = rec["line_hi"]
        self.blocks = rec["blocks"]
        self.locals = rec["locals"]
        self.nargs = rec["args"]
        self.trait_method = rec.get("trait_method")
        self.impl_self = rec.get("impl_self")
        self.n = len(self.blocks)
        self.promoted_recs = rec.get("promoted", [])
        self.inlined_params = set(rec.get("inlined_params", []))
        self._promoted = {}
        self._succ = None
        self._pred = None
        self._dom = None
        self._pdom = None
        self._calls = None
        self._defs = None
        self._flags = None
        self._reach_cache = {}

    # ---------------------------------------------------------------- CFG
    def edges(self, bb, unwind=False):
        """List of (label, target). Labels: goto, ret:<callee>, sw:<val>, sw:else, drop, assert, unwind."""
        t = self.blocks[bb]["term"]
        k = t["k"]
        out = []
        if k == "goto":
            out.append(("goto", t["target"]))
        elif k == "switch":
            for v, tg in t["targets"]:
                out.append(("sw:%s" % v, tg))
            out.append(("sw:else", t["otherwise"]))
        elif k == "call":
            if t.get("target") is not None:
                out.append(("ret", t["target"]))
            if unwind and t.get("unwind") is not None:
                out.append(("unwind", t["unwind"]))
        elif k == "drop":
            out.append(("drop", t["target"]))
            if unwind and t.get("unwind") is not None:
                out.append(("unwind", t["unwind"]))
        elif k == "assert":
            out.append(("assert", t["target"]))
            if unwind and t.get("unwind") is not None:
                out.append(("unwind", t["unwind"]))
        elif k == "other":
            # FalseEdge etc. do not occur in optimized MIR; InlineAsm/TailCall/Yield do not occur in raindb
            pass
        return out

    def succ(self, bb):
        if self._succ is None:
            self._succ = [[tg for _, tg in self.edges(b)] for b in range(self.n)]
        return self._succ[bb]

    def pred(self, bb):
        if self._pred is None:
            p = [[] for _ in range(self.n)]
            for b in range(self.n):
                for s in self.succ(b):
                    p[s].append(b)
            self._pred = p
        return self._pred[bb]

    def term(self, bb):
        return self.blocks[bb]["term"]

    def is_cleanup(self, bb):
        return self.blocks[bb]["cleanup"]

    def return_blocks(self):
        return [b for b in range(self.n) if self.term(b)["k"] == "return"]

    def reachable(self, start=0, removed_nodes=(), removed_edges=(), stop_nodes=()):
        """Blocks reachable from start over normal edges, not entering removed_nodes and not taking
        removed_edges ((src,dst) pairs). stop_nodes are entered but not expanded."""
        removed_nodes = set(removed_nodes)
        removed_edges = set(removed_edges)
        stop_nodes = set(stop_nodes)
        starts = start if isinstance(start, (list, tuple, set)) else [start]
        seen = set()
        dq = deque()
        for s in starts:
            if s in removed_nodes:
                continue
            seen.add(s)
            dq.append(s)
        while dq:
            b = dq.popleft()
            if b in stop_nodes:
                continue
            for s in self.succ(b):
                if s in seen or s in removed_nodes or (b, s) in removed_edges:
                    continue
                seen.add(s)
                dq.append(s)
        return seen

    def must_pass(self, target, through_nodes=(), through_edges=(), start=0):
        """True iff every normal-flow path start -> target passes through one of the nodes/edges.
        (target itself may be in through_nodes: then trivially true). Vacuous (target unreachable) -> True."""
        if target in set(through_nodes):
            return True
        r = self.reachable(start, removed_nodes=through_nodes, removed_edges=through_edges)
        return target not in r

    def must_pass_cp(self, target, through_nodes=(), through_edges=(), start=0, cap=20000):
        """must_pass with a light constant propagation from `start`: a plain bool local that is assigned a constant on the way
        (`Err(_) => false`) and switched on later follows only the matching edge.  Locals assigned anything else are unknown from
        there on.  Falls back to must_pass when the state space exceeds `cap`."""
        through_nodes = set(through_nodes)
        through_edges = set(through_edges)
        if target in through_nodes:
            return True
        bools = {l for l in range(len(self.locals)) if self.local_ty(l) == "bool"}
        seen = set()
        todo = [(start, frozenset())]
        while todo:
            bb, known = todo.pop()
            if (bb, known) in seen:
                continue
            seen.add((bb, known))
            if len(seen) > cap:
                return self.must_pass(target, through_nodes, through_edges, start)
            if bb == target:
                return False
            if bb in through_nodes:
                continue
            k = dict(known)
            for st in self.blocks[bb]["stmts"]:
                if st["k"] != "assign" or st["pl"]["p"]:
                    continue
                l = st["pl"]["l"]
                if l not in bools:
                    continue
                rv = st["rv"]
                if rv["k"] == "use" and rv["ops"][0].get("k") == "const" and str(rv["ops"][0].get("val")) in ("0", "1"):
                    k[l] = int(rv["ops"][0]["val"])
                elif rv["k"] == "use" and rv["ops"][0].get("k") in ("copy", "move") and not rv["ops"][0]["pl"]["p"] and rv["ops"][0]["pl"]["l"] in k:
                    k[l] = k[rv["ops"][0]["pl"]["l"]]
                elif rv["k"] == "unop" and rv.get("op") == "Not" and rv["ops"][0].get("k") in ("copy", "move") and not rv["ops"][0]["pl"]["p"] and rv["ops"][0]["pl"]["l"] in k:
                    k[l] = 1 - k[rv["ops"][0]["pl"]["l"]]
                else:
                    k.pop(l, None)
            t = self.term(bb)
            if t["k"] == "call" and not t["dest"]["p"]:
                k.pop(t["dest"]["l"], None)
            succs = list(self.succ(bb))
            if t["k"] == "switch" and t["discr"].get("k") in ("copy", "move") and not t["discr"]["pl"]["p"] and t["discr"]["pl"]["l"] in k:
                v = k[t["discr"]["pl"]["l"]]
                tg = None
                for (val, x) in t["targets"]:
                    if int(val) == v:
                        tg = x
                if tg is None:
                    tg = t.get("otherwise")
                succs = [tg] if tg is not None else succs
            nk = frozenset(k.items())
            for s2 in succs:
                if (bb, s2) in through_edges:
                    continue
                todo.append((s2, nk))
        return True

    def must_pass_fs(self, target, through_nodes=(), through_edges=(), start=0, assume=None):
        """Flag-sensitive must_pass: bool locals that are only ever assigned constants are tracked exactly,
        so infeasible combinations of hand-written / drop flags are not explored."""
        through_nodes = set(through_nodes)
        through_edges = set(through_edges)
        if target in through_nodes:
            return True
        hit = [False]

        def transfer(bb, us, phase, data):
            if phase == "stmts":
                if bb == target:
                    hit[0] = True
                    return None
                if bb in through_nodes:
                    return None
                return us
            lab, tg = data
            if (bb, tg) in through_edges:
                return None
            return us
        try:
            self.explore(0, transfer, start=start, assume=assume)
        except ExploreCap:
            return self.must_pass(target, through_nodes, through_edges, start)
        return not hit[0]

    def dominators(self):
        """Immediate dominators over the normal-flow CFG (iterative)."""
        if self._dom is not None:
            return self._dom
        order = []
        seen = set()
        st = [(0, iter(self.succ(0)))]
        seen.add(0)
        while st:
            b, it = st[-1]
            adv = False
            for s in it:
                if s not in seen:
                    seen.add(s)
                    st.append((s, iter(self.succ(s))))
                    adv = True
                    break
            if not adv:
                order.append(b)
                st.pop()
        rpo = list(reversed(order))
        idx = {b: i for i, b in enumerate(rpo)}
        idom = {0: 0}
        changed = True
        while changed:
            changed = False
            for b in rpo[1:]:
                ps = [p for p in self.pred(b) if p in idom]
                if not ps:
                    continue
                new = ps[0]
                for p in ps[1:]:
                    new = self._intersect(idom, idx, p, new)
                if idom.get(b) != new:
                    idom[b] = new
                    changed = True
        self._dom = idom
        return idom

    @staticmethod
    def _intersect(idom, idx, a, b):
        while a != b:
            while idx[a] > idx[b]:
                a = idom[a]
            while idx[b] > idx[a]:
                b = idom[b]
        return a

    def dominates(self, a, b):
        idom = self.dominators()
        if b not in idom:
            return True  # unreachable
        x = b
        while True:
            if x == a:
                return True
            if x == 0:
                return a == 0
            x = idom[x]

    def exit_reaching(self):
        """Set of blocks from which a `return` is reachable over normal flow."""
        rets = self.return_blocks()
        seen = set(rets)
        dq = deque(rets)
        while dq:
            b = dq.popleft()
            for p in self.pred(b):
                if p not in seen:
                    seen.add(p)
                    dq.append(p)
        return seen

    def control_deps(self, bb):
        """Set of (switch_block, label, succ) edges such that bb is control dependent on that edge:
        the edge's successor is post-dominated by bb (all paths from succ to exit/ever pass bb) ... we
        use the simpler and sufficient reachability definition: edge (s->t) controls bb if bb is
        reachable from t, and there is another edge (s->t') from which exit is reachable without
        passing bb."""
        out = set()
        for s in range(self.n):
            es = self.edges(s)
            if len(es) < 2:
                continue
            for lab, t in es:
                if bb != t and bb not in self.reachable(t):
                    continue
                # all paths from t must pass bb?  (t == bb or bb post-dominates t w.r.t. function exits)
                if t != bb and not self._all_paths_hit(t, bb):
                    continue
                # some sibling avoids bb
                for lab2, t2 in es:
                    if t2 == t:
                        continue
                    if t2 != bb and not self._all_paths_hit(t2, bb):
                        out.add((s, lab, t))
                        break
        return out

    def _all_paths_hit(self, start, bb):
        """every maximal normal-flow path from start passes through bb (paths ending in return or
        unreachable/diverging count as maximal)."""
        if start == bb:
            return True
        key = ("aph", start, bb)
        if key in self._reach_cache:
            return self._reach_cache[key]
        r = self.reachable(start, removed_nodes=[bb])
        res = True
        for b in r:
            k = self.term(b)["k"]
            if k in ("return",):
                res = False
                break
            if k == "call" and self.term(b).get("target") is None:
                # diverging call (panic): path ends without bb; treat as not a normal exit
                continue
        self._reach_cache[key] = res
        return res

    # ---------------------------------------------------------------- calls
    def calls(self):
        if self._calls is None:
            cs = []
            for b in range(self.n):
                t = self.term(b)
                if t["k"] == "call":
                    cs.append(CallSite(self, b, t))
            self._calls = cs
        return self._calls

    def calls_to(self, pred, normal_only=True):
        """Call sites whose callee name satisfies pred (str exact on stripped name, regex, or callable)."""
        m = matcher(pred)
        return [c for c in self.calls() if m(c) and not (normal_only and self.is_cleanup(c.bb))]

    # ---------------------------------------------------------------- defs / origins
    def defs(self):
        """local -> list of def records: ('stmt', bb, idx, stmt) | ('call', bb, callsite)"""
        if self._defs is None:
            d = defaultdict(list)
            for b in range(self.n):
                for i, st in enumerate(self.blocks[b]["stmts"]):
                    if st["k"] == "assign":
                        d[st["pl"]["l"]].append(("stmt", b, i, st))
                    elif st["k"] == "setdiscr":
                        d[st["pl"]["l"]].append(("setdiscr", b, i, st))
                t = self.term(b)
                if t["k"] == "call":
                    d[t["dest"]["l"]].append(("call", b, None, t))
            # out-parameters of inlined helpers: `helper(&mut x, ..)` with `*p = v` inside the helper defines x. For a
            # parameter local p of an inlined helper that is bound to `&mut x` (x a plain local), stores through p are
            # recorded as definitions of x as well.
            for q in sorted(self.inlined_params):
                qd = [x for x in d.get(q, []) if x[0] == "stmt" and not x[3]["pl"]["p"]]
                if len(qd) != 1 or qd[0][3]["rv"]["k"] != "use" or qd[0][3]["rv"]["ops"][0]["k"] not in ("copy", "move"):
                    continue
                r = qd[0][3]["rv"]["ops"][0]["pl"]

                def referent(l_, depth=0):
                    """the plain local a `&mut` temporary points at (through reborrows `&mut *t` and moves)"""
                    rd = [x for x in d.get(l_, []) if x[0] == "stmt" and not x[3]["pl"]["p"]]
                    if len(rd) != 1 or depth > 4:
                        return None
                    rv_ = rd[0][3]["rv"]
                    if rv_["k"] == "ref" and rv_.get("mut"):
                        if not rv_["pl"]["p"]:
                            return rv_["pl"]["l"]
                        if rv_["pl"]["p"] == ["*"]:
                            return referent(rv_["pl"]["l"], depth + 1)
                        return None
                    if rv_["k"] == "use" and rv_["ops"][0]["k"] in ("copy", "move") and not rv_["ops"][0]["pl"]["p"]:
                        return referent(rv_["ops"][0]["pl"]["l"], depth + 1)
                    return None
                target = referent(r["l"]) if not r["p"] else None
                if target is None or 1 <= target <= self.nargs:
                    continue
                for x in list(d.get(q, [])):
                    if x[0] == "stmt" and x[3]["pl"]["p"] and x[3]["pl"]["p"][0] == "*":
                        st2 = dict(x[3])
                        st2["pl"] = {"l": target, "p": list(x[3]["pl"]["p"][1:])}
                        d[target].append(("stmt", x[1], x[2], st2))
            self._defs = d
        return self._defs

    def closure_of_operand(self, op, depth=0, seen=None):
        """If the operand (transitively through moves/refs) is a closure aggregate or a closure-typed
        local, return the closure def paths."""
        res = []
        if op["k"] == "const":
            if op.get("fn") and "{closure" in op["fn"]:
                res.append(op["fn"])
            return res
        if op["k"] not in ("copy", "move"):
            return res
        l = op["pl"]["l"]
        ty = self.locals[l]["ty"]
        if "{closure@" not in ty and "closure" not in ty:
            return res
        seen = seen or set()
        if l in seen or depth > 6:
            return res
        seen.add(l)
        for d in self.defs().get(l, []):
            if d[0] == "stmt":
                rv = d[3]["rv"]
                if rv["k"] == "aggregate" and rv.get("closure"):
                    res.append(rv["closure"])
                elif rv["k"] == "use":
                    res += self.closure_of_operand(rv["ops"][0], depth + 1, seen)
                elif rv["k"] == "ref":
                    res += self.closure_of_operand({"k": "copy", "pl": rv["pl"]}, depth + 1, seen)
                elif rv["k"] == "cast":
                    res += self.closure_of_operand(rv["ops"][0], depth + 1, seen)
        return res

    # flags: bool locals only ever assigned constants and only used in switches / copies
    def flag_locals(self):
        if self._flags is not None:
            return self._flags
        cand = {}
        for l, dl in self.defs().items():
            if self.locals[l]["ty"] != "bool" or l <= self.nargs:
                continue
            ok = True
            for d in dl:
                if d[0] != "stmt":
                    ok = False
                    break
                st = d[3]
                if st["pl"]["p"]:
                    ok = False
                    break
                rv = st["rv"]
                if rv["k"] != "use" or rv["ops"][0]["k"] != "const" or rv["ops"][0].get("val") not in ("0", "1"):
                    ok = False
                    break
            if ok:
                cand[l] = True
        # must not be mutably borrowed (a shared borrow of a bool cannot change it)
        for b in range(self.n):
            for st in self.blocks[b]["stmts"]:
                if st["k"] == "assign" and (st["rv"]["k"] == "rawptr" or (st["rv"]["k"] == "ref" and st["rv"].get("mut"))):
                    cand.pop(st["rv"]["pl"]["l"], None)
        base = set(cand)
        # second phase: bools whose every definition is a constant or a relay of a base flag (`x = flag`, `x = t.0` with the
        # single-definition tuple `t = (flag, ..)`): a flag returned by an inlined helper and assigned in the caller
        self._flags = base
        self._relay_src = {}
        ext = {}
        mut_borrowed = set()
        for b in range(self.n):
            for st in self.blocks[b]["stmts"]:
                if st["k"] == "assign" and (st["rv"]["k"] == "rawptr" or (st["rv"]["k"] == "ref" and st["rv"].get("mut"))):
                    mut_borrowed.add(st["rv"]["pl"]["l"])
        for _round in range(4):
            known = base | set(ext)
            grew = False
            for l, dl in self.defs().items():
                if self.locals[l]["ty"] != "bool" or l <= self.nargs or l in known or l in mut_borrowed:
                    continue
                srcs, ok = {}, bool(dl)
                for d in dl:
                    if d[0] != "stmt" or d[3]["pl"]["p"]:
                        ok = False
                        break
                    rv = d[3]["rv"]
                    if rv["k"] == "use" and rv["ops"][0]["k"] == "const" and rv["ops"][0].get("val") in ("0", "1"):
                        continue
                    src = self._relay_of(d[3], known)
                    if src is None:
                        ok = False
                        break
                    srcs[id(d[3])] = src
                if ok and srcs:
                    ext[l] = srcs
                    grew = True
            if not grew:
                break
        for l, srcs in ext.items():
            self._relay_src.update(srcs)
        self._flags = base | set(ext)
        return self._flags

    def _relay_of(self, st, flags):
        """the flag local an assignment statement copies (directly or out of a single-definition tuple), else None"""
        rv = st["rv"]
        if rv["k"] != "use" or rv["ops"][0]["k"] not in ("copy", "move"):
            return None
        pl = rv["ops"][0]["pl"]
        if not pl["p"] and pl["l"] in flags:
            return pl["l"]
        if len(pl["p"]) == 1 and isinstance(pl["p"][0], dict) and "f" in pl["p"][0]:
            td = self.defs().get(pl["l"], [])
            k = pl["p"][0]["f"]
            if len(td) == 1 and td[0][0] == "stmt" and td[0][3]["rv"]["k"] == "aggregate" and td[0][3]["rv"].get("ak") == "tuple" \
                    and isinstance(k, int) and k < len(td[0][3]["rv"]["ops"]):
                op = td[0][3]["rv"]["ops"][k]
                if op["k"] in ("copy", "move") and not op["pl"]["p"] and op["pl"]["l"] in flags:
                    return op["pl"]["l"]
        return None

    def _flag_relay(self):
        """single-definition bool local -> flag local it copies (directly or out of a single-definition tuple)"""
        if getattr(self, "_relay", None) is not None:
            return self._relay
        flags = self.flag_locals()
        out = {}
        for l, dl in self.defs().items():
            if self.locals[l]["ty"] != "bool" or len(dl) != 1 or dl[0][0] != "stmt" or l in flags or dl[0][3]["pl"]["p"]:
                continue
            src = self._relay_of(dl[0][3], flags)
            if src is not None:
                out[l] = src
        self._relay = out
        return out

    def stable_bools(self):
        """bool locals with exactly one definition that are never mutably borrowed: once computed, every
        later test of the same local (through copies / Not) on a path must agree."""
        if getattr(self, "_stable", None) is not None:
            return self._stable
        cand = set()
        for l, dl in self.defs().items():
            if self.locals[l]["ty"] == "bool" and l > self.nargs and len(dl) == 1 and l not in self.flag_locals():
                d = dl[0]
                if d[0] == "stmt" and d[3]["pl"]["p"]:
                    continue
                cand.add(l)
        # bool parameters that are never re-assigned keep their value as well
        for l in range(1, self.nargs + 1):
            if self.locals[l]["ty"] == "bool" and not self.defs().get(l):
                cand.add(l)
        for b in range(self.n):
            for st in self.blocks[b]["stmts"]:
                if st["k"] == "assign" and st["rv"]["k"] in ("ref", "rawptr") and st["rv"].get("mut", True):
                    cand.discard(st["rv"]["pl"]["l"])
        # keep only those tested by at least two different switch blocks (a single test gives no correlation)
        uses = {}
        for b in range(self.n):
            t = self.term(b)
            if t["k"] != "switch" or t["discr"]["k"] not in ("copy", "move") or t["discr"]["pl"]["p"]:
                continue
            l = t["discr"]["pl"]["l"]
            src = {l}
            # block-local copies / Not
            for st in reversed(self.blocks[b]["stmts"]):
                if st["k"] == "assign" and not st["pl"]["p"] and st["pl"]["l"] in src and st["rv"]["k"] in ("use", "unop") \
                        and st["rv"]["ops"] and st["rv"]["ops"][0]["k"] in ("copy", "move") and not st["rv"]["ops"][0]["pl"]["p"]:
                    src.add(st["rv"]["ops"][0]["pl"]["l"])
            for x in src & cand:
                uses.setdefault(x, set()).add(b)
        cand = {l for l in cand if len(uses.get(l, ())) >= 2}
        self._stable = cand
        return cand

    def status_options(self):
        """Named Option-typed locals used as status variables (LevelDB idiom: `maybe_error`), tested at least
        twice. Returns (set of locals, links) where links maps a bool temp to (option local, 'none'|'some') for
        `is_none(&x)` / `is_some(&x)` calls, and discr maps a discriminant temp to the option local."""
        if getattr(self, "_status", None) is not None:
            return self._status
        cand = set()
        for l in range(self.nargs + 1, len(self.locals)):
            if self.locals[l].get("name") and self.locals[l]["ty"].startswith("std::option::Option<"):
                cand.add(l)
        links, discr = {}, {}
        uses = {}
        for b in range(self.n):
            for st in self.blocks[b]["stmts"]:
                if st["k"] == "assign" and st["rv"]["k"] == "discr" and not st["pl"]["p"] and not st["rv"]["pl"]["p"] \
                        and st["rv"]["pl"]["l"] in cand:
                    discr[st["pl"]["l"]] = st["rv"]["pl"]["l"]
                    uses.setdefault(st["rv"]["pl"]["l"], set()).add(b)
            t = self.term(b)
            if t["k"] == "call" and t["args"] and not t["dest"]["p"]:
                nm = strip_generics(t.get("resolved") or t.get("callee"))
                if nm in ("std::option::Option::is_none", "std::option::Option::is_some"):
                    a = t["args"][0]
                    if a["k"] in ("copy", "move") and not a["pl"]["p"]:
                        # the argument is `&x`: find the ref statement in this block
                        for st in self.blocks[b]["stmts"]:
                            if st["k"] == "assign" and st["pl"]["l"] == a["pl"]["l"] and st["rv"]["k"] == "ref" \
                                    and not st["rv"]["pl"]["p"] and st["rv"]["pl"]["l"] in cand and not st["rv"].get("mut"):
                                links[t["dest"]["l"]] = (st["rv"]["pl"]["l"], "none" if nm.endswith("is_none") else "some")
                                uses.setdefault(st["rv"]["pl"]["l"], set()).add(b)
        cand = {l for l in cand if len(uses.get(l, ())) >= 2}
        links = {d: v for d, v in links.items() if v[0] in cand}
        discr = {d: x for d, x in discr.items() if x in cand}
        self._status = (cand, links, discr)
        return self._status

    def _option_assign_value(self, st):
        """abstract value (1 = Some, 0 = None, None = unknown) assigned by statement st to an option local"""
        rv = st["rv"]
        if rv["k"] == "aggregate":
            return 1 if rv.get("variant") == "Some" else 0 if rv.get("variant") == "None" else None
        if rv["k"] == "use" and rv["ops"][0]["k"] == "const":
            txt = rv["ops"][0].get("text") or ""
            return 0 if "None" in txt and "Some" not in txt else None
        if rv["k"] == "use" and rv["ops"][0]["k"] in ("copy", "move") and not rv["ops"][0]["pl"]["p"]:
            src = rv["ops"][0]["pl"]["l"]
            ds = self.defs().get(src, [])
            if len(ds) == 1 and ds[0][0] == "stmt" and ds[0][3]["rv"]["k"] == "aggregate":
                v = ds[0][3]["rv"].get("variant")
                return 1 if v == "Some" else 0 if v == "None" else None
        return None

    def explore(self, init, transfer, start=0, cap=400000, follow_unwind=False, assume=None):
        """Flag-sensitive forward exploration.

        State = (bb, flag valuation, user_state). Tracked exactly: bool locals only ever assigned constants
        (drop flags, hand-written flags) and, symbolically, single-definition bool locals (a branch on one
        fixes its value for the rest of the path, so correlated tests are not explored inconsistently).
        `transfer(bb, ustate, phase, data)` is called with phase 'stmts' (data = block) -> new ustate, and for
        each outgoing edge with phase 'edge' (data = (label, target)) -> new ustate or None to prune.
        Returns (dict of visited product nodes, predecessor map)."""
        flags = sorted(self.flag_locals())
        stable = sorted(self.stable_bools())
        opt_locals, opt_links, opt_discr = self.status_options()
        opts = sorted(opt_locals)
        allf = flags + stable + opts
        fidx = {l: i for i, l in enumerate(allf)}
        nflags = len(flags)
        nstable = len(flags) + len(stable)
        init_list = [None] * len(allf)
        for l_, v_ in (assume or {}).items():
            if l_ in fidx:
                init_list[fidx[l_]] = v_
        init_flags = tuple(init_list)
        seen = {}
        parent = {}
        st0 = (start, init_flags, init)
        dq = deque([st0])
        seen[st0] = True
        parent[st0] = None
        count = 0
        while dq:
            node = dq.popleft()
            bb, fl, us = node
            count += 1
            if count > cap:
                raise ExploreCap(self.path)
            fl = list(fl)
            tmp = {}   # block-local: temp -> ("val", v) | ("sym", stable_local, negated)
            for st in self.blocks[bb]["stmts"]:
                if st["k"] != "assign" or st["pl"]["p"]:
                    continue
                dl = st["pl"]["l"]
                rv = st["rv"]
                if dl in fidx and fidx[dl] < nflags:
                    if rv["ops"][0]["k"] == "const":
                        fl[fidx[dl]] = int(rv["ops"][0]["val"])
                    else:
                        src = self._relay_src.get(id(st))
                        fl[fidx[dl]] = fl[fidx[src]] if src is not None and src in fidx else None
                    continue
                if dl in fidx and fidx[dl] >= nstable:
                    fl[fidx[dl]] = self._option_assign_value(st)   # status option: Some / None / unknown
                    continue
                if dl in fidx:
                    # (re)definition of a stable bool: value unknown again — unless it is a relay of a tracked flag
                    # (`was = flag`, or `was = t.0` with `t = (flag, ..)`: the shape a flag takes when it is returned by an
                    # inlined helper and taken apart by the caller)
                    src = self._flag_relay().get(dl)
                    fl[fidx[dl]] = fl[fidx[src]] if src is not None and src in fidx else None
                    continue
                if rv["k"] == "ref" and rv.get("mut") and not rv["pl"]["p"] and rv["pl"]["l"] in fidx and fidx[rv["pl"]["l"]] >= nstable:
                    fl[fidx[rv["pl"]["l"]]] = None   # `&mut status`: may be changed through the reference
                if rv["k"] == "discr" and dl in opt_discr:
                    x = opt_discr[dl]
                    v = fl[fidx[x]]
                    tmp[dl] = ("val", v) if v is not None else ("sym", x, 0)
                    continue
                if rv["k"] == "use" and rv["ops"][0]["k"] == "move" and rv["ops"][0]["pl"]["p"] and rv["ops"][0]["pl"]["l"] in fidx \
                        and fidx[rv["ops"][0]["pl"]["l"]] >= nstable:
                    pass  # moving the payload out (`if let Some(e) = status`): the variant stays what it was
                if rv["k"] in ("use", "unop") and rv["ops"] and rv["ops"][0]["k"] in ("copy", "move") and not rv["ops"][0]["pl"]["p"]:
                    sl = rv["ops"][0]["pl"]["l"]
                    neg = 1 if (rv["k"] == "unop" and rv.get("op") == "Not") else 0
                    if rv["k"] == "unop" and rv.get("op") != "Not":
                        tmp.pop(dl, None)
                        continue
                    if sl in fidx:
                        v = fl[fidx[sl]]
                        if v is not None:
                            tmp[dl] = ("val", v ^ neg)
                        elif fidx[sl] >= nflags:
                            tmp[dl] = ("sym", sl, neg)
                        else:
                            tmp.pop(dl, None)
                    elif sl in tmp:
                        k = tmp[sl]
                        tmp[dl] = ("val", k[1] ^ neg) if k[0] == "val" else ("sym", k[1], k[2] ^ neg)
                    elif sl in opt_links:
                        x, kind = opt_links[sl]
                        v = fl[fidx[x]]
                        n2 = neg ^ (1 if kind == "none" else 0)
                        tmp[dl] = ("val", v ^ n2) if v is not None else ("sym", x, n2)
                    else:
                        tmp.pop(dl, None)
                else:
                    tmp.pop(dl, None)
            t = self.term(bb)
            if t["k"] == "call" and not t["dest"]["p"] and t["dest"]["l"] in fidx and fidx[t["dest"]["l"]] >= nflags:
                fl[fidx[t["dest"]["l"]]] = None
            if t["k"] == "call":
                nm_ = strip_generics(t.get("resolved") or t.get("callee"))
                for a_ in t["args"]:
                    # a status option handed out by `&mut` (e.g. take()) : afterwards None for take, unknown otherwise
                    if a_["k"] in ("copy", "move") and not a_["pl"]["p"]:
                        for st_ in self.blocks[bb]["stmts"]:
                            if st_["k"] == "assign" and st_["pl"]["l"] == a_["pl"]["l"] and st_["rv"]["k"] == "ref" and st_["rv"].get("mut") \
                                    and not st_["rv"]["pl"]["p"] and st_["rv"]["pl"]["l"] in fidx and fidx[st_["rv"]["pl"]["l"]] >= nstable:
                                fl[fidx[st_["rv"]["pl"]["l"]]] = 0 if nm_ == "std::option::Option::take" else None
            us2 = transfer(bb, us, "stmts", self.blocks[bb])
            if us2 is None:
                continue
            allowed = None
            sym = None
            if t["k"] == "switch" and t["discr"]["k"] in ("copy", "move") and not t["discr"]["pl"]["p"]:
                l = t["discr"]["pl"]["l"]
                k = None
                if l in fidx:
                    v = fl[fidx[l]]
                    if v is not None:
                        k = ("val", v)
                    elif fidx[l] >= nflags:
                        k = ("sym", l, 0)
                elif l in tmp:
                    k = tmp[l]
                elif l in opt_links:
                    x, kind = opt_links[l]
                    v = fl[fidx[x]]
                    neg = 1 if kind == "none" else 0      # is_none(x) == !is_some(x)
                    k = ("val", v ^ neg) if v is not None else ("sym", x, neg)
                if k is not None and k[0] == "val":
                    v = k[1]
                    for val, tg in t["targets"]:
                        if int(val) == v:
                            allowed = ("sw:%s" % val, tg)
                            break
                    if allowed is None:
                        allowed = ("sw:else", t["otherwise"])
                elif k is not None and k[0] == "sym" and (self.locals[k[1]]["ty"] == "bool" or k[1] in opt_locals):
                    sym = k
            for lab, tg in self.edges(bb, unwind=follow_unwind):
                if allowed is not None and (lab, tg) != allowed:
                    continue
                fl2 = fl
                if sym is not None and lab.startswith("sw:"):
                    # the value of the discriminant on this edge
                    if lab == "sw:else":
                        listed = [int(v) for v, _ in t["targets"]]
                        dv = 1 if 0 in listed else 0
                    else:
                        dv = int(lab[3:])
                    fl2 = list(fl)
                    fl2[fidx[sym[1]]] = dv ^ sym[2]
                us3 = transfer(bb, us2, "edge", (lab, tg))
                if us3 is None:
                    continue
                nn = (tg, tuple(fl2), us3)
                if nn not in seen:
                    seen[nn] = True
                    parent[nn] = node
                    dq.append(nn)
        return seen, parent

    def promoted(self, idx):
        """Body wrapper for promoted constant #idx of this body (its _0 is the promoted value)."""
        if idx not in self._promoted:
            if idx >= len(self.promoted_recs):
                return None
            rec = dict(self.promoted_recs[idx])
            rec.update({"kind": "promoted", "parent": self.path, "direct_parent": self.path, "file": self.file,
                        "line_lo": self.line_lo, "line_hi": self.line_hi, "args": 0})
            self._promoted[idx] = Body("%s::promoted[%d]" % (self.path, idx), rec, self.prog)
        return self._promoted[idx]

    # ---------------------------------------------------------------- misc
    def local_name(self, l):
        return self.locals[l].get("name")

    def local_ty(self, l):
        return self.locals[l]["ty"]

    def where(self, bb):
        return "%s:%s" % (self.file, self.term(bb).get("line"))

    def closures(self):
        """Bodies of closures defined (directly or nested) in this body."""
        return [b for b in self.prog.bodies.values() if b.kind == "closure" and b.parent == self.path and b.path != self.path]


class ExploreCap(Exception):
    pass


def matcher(pred):
    if callable(pred):
        return pred
    if isinstance(pred, (list, tuple, set, frozenset)):
        ms = [matcher(p) for p in pred]
        return lambda c: any(m(c) for m in ms)
    if isinstance(pred, re.Pattern):
        return lambda c: bool(pred.search(c.name or "")) or bool(pred.search(c.declared_name or ""))
    return lambda c: c.name == pred or c.declared_name == pred


class Program:
    def __init__(self, facts):
        self.facts = facts
        # calls to local functions that are not on the reviewed tree's list are replaced by the callee's blocks (inline.py)
        from . import inline
        self.inlined = inline.apply(facts)
        self.bodies = {p: Body(p, r, self) for p, r in facts["bodies"].items()}
        # the function-at-a-time view (each function as written, helpers not inlined) for per-function rules such as ERR-1
        self.bodies_as_written = dict(self.bodies)
        for p, r in (facts.get("bodies_before_inlining") or {}).items():
            self.bodies_as_written[p] = Body(p, r, self)
        for p, r in (facts.get("bodies_absorbed") or {}).items():
            self.bodies_as_written[p] = Body(p, r, self)
        self.impls = facts["impls"]
        self.structs = facts.get("structs", {})
        self.trait_impls = defaultdict(list)  # trait method path -> [impl method path]
        self.impl_assoc = {}
        for im in self.impls:
            self.trait_impls[im["trait_method"]].append(im["impl_method"])
            self.impl_assoc[im["impl_method"]] = im.get("assoc", {})
        self._cg = None
        self._reach = {}
        self.by_stripped = defaultdict(list)
        for p in self.bodies:
            self.by_stripped[strip_generics(p)].append(p)

    def body(self, path):
        b = self.bodies.get(path)
        if b is None:
            c = self.by_stripped.get(path)
            if c and len(c) == 1:
                return self.bodies[c[0]]
        return b

    DETACHED = {"std::thread::Builder::spawn", "std::thread::spawn",
                "versioning::file_iterators::MergingIterator::register_cleanup_method"}

    def callees_of_site(self, cs, sync_only=False):
        """Local body paths a call site may transfer control to: the resolved local callee, all impls
        for a dyn call, and closures passed as arguments (they are run by the callee, e.g. unlocked_fair,
        map_or, thread spawn — attached to the call they are passed to)."""
        out = []
        t = cs.t
        if t.get("local") and t.get("resolved") in self.bodies and not t.get("dyn"):
            out.append(t["resolved"])
        elif t.get("dyn") or (t.get("resolved") is None and t.get("callee") in self.trait_impls):
            for im in self.dyn_targets(t):
                out.append(im)
        elif t.get("local") and t.get("resolved") not in self.bodies:
            # trait default method or something not in bodies
            pass
        if not (sync_only and cs.name in self.DETACHED):
            for c in cs.closure_args():
                if c in self.bodies:
                    out.append(c)
        return out

    def dyn_targets(self, t):
        """Impl methods a dyn / unresolved trait call can dispatch to: all local impls of the trait method
        whose associated types agree with the `Name = Type` bindings of the dyn type."""
        want = {}
        st = t.get("self_ty") or ""
        for m in re.finditer(r"(\w+) = ([^,>]+(?:<[^>]*>)?)", st):
            want[m.group(1)] = m.group(2).strip()
        out = []
        for im in self.trait_impls.get(t.get("callee"), []):
            if im not in self.bodies:
                continue
            assoc = self.impl_assoc.get(im, {})
            ok = True
            for k, v in want.items():
                if k in assoc and assoc[k] != v:
                    ok = False
                    break
            if ok:
                out.append(im)
        return out

    def callgraph(self, sync_only=False):
        if self._cg is None:
            self._cg = {}
        if sync_only not in self._cg:
            cg = {}
            for p, b in self.bodies.items():
                s = set()
                detached = set()
                for cs in b.calls():
                    for c in self.callees_of_site(cs, sync_only):
                        s.add(c)
                    if sync_only and cs.name in self.DETACHED:
                        detached |= set(cs.closure_args())
                # closures constructed in the body but not passed to a call directly are also attached
                for bb in b.blocks:
                    for st in bb["stmts"]:
                        if st["k"] == "assign" and st["rv"]["k"] == "aggregate" and st["rv"].get("closure"):
                            c = st["rv"]["closure"]
                            if c in self.bodies and c not in detached:
                                # boxed callbacks (Box::new(closure)) are detached too when sync_only
                                if sync_only and self._is_boxed_callback(b, c):
                                    continue
                                s.add(c)
                cg[p] = s
            self._cg[sync_only] = cg
        return self._cg[sync_only]

    def _is_boxed_callback(self, body, closure_path):
        for cs in body.calls():
            if cs.name == "std::boxed::Box::new" and closure_path in cs.closure_args():
                return True
        return False

    def reach_set(self, path, exclude_edges=None, sync_only=False):
        """All local bodies transitively reachable from path (including itself). With sync_only, closures
        handed to thread spawn or registered as boxed callbacks are not followed."""
        key = (path, sync_only, None if exclude_edges is None else id(exclude_edges))
        if key in self._reach and exclude_edges is None:
            return self._reach[key]
        cg = self.callgraph(sync_only)
        seen = {path}
        dq = deque([path])
        while dq:
            p = dq.popleft()
            for q in cg.get(p, ()):
                if exclude_edges and (p, q) in exclude_edges:
                    continue
                if q not in seen:
                    seen.add(q)
                    dq.append(q)
        if exclude_edges is None:
            self._reach[key] = seen
        return seen

    def ext_calls_reachable(self, path, pred):
        """Call sites (anywhere in the transitive closure of path) matching pred."""
        m = matcher(pred)
        out = []
        for p in self.reach_set(path):
            for cs in self.bodies[p].calls():
                if m(cs):
                    out.append(cs)
        return out

    def site_reaches(self, cs, pred, sync_only=False):
        """Does this call site call (directly, via helper, via closure arg, via dyn impl) something
        matching pred?"""
        m = matcher(pred)
        if m(cs):
            return True
        for c in self.callees_of_site(cs, sync_only):
            if self.fn_reaches(c, pred, sync_only):
                return True
        return False

    def fn_reaches(self, path, pred, sync_only=False):
        m = matcher(pred)
        key = None if callable(pred) else ("fr", path, sync_only, repr(pred))
        if key is not None and key in self._reach:
            return self._reach[key]
        res = False
        for p in self.reach_set(path, sync_only=sync_only):
            for cs in self.bodies[p].calls():
                if m(cs):
                    res = True
                    break
            if res:
                break
        if key is not None:
            self._reach[key] = res
        return res

    def callers_of(self, pred, as_written=False):
        """All call sites in the crate matching pred (direct match only). as_written: in the function-at-a-time view
        (who-may-call rules: a helper that was inlined into its callers still has its callers there)."""
        m = matcher(pred)
        out = []
        for b in (self.bodies_as_written if as_written else self.bodies).values():
            for cs in b.calls():
                if m(cs):
                    out.append(cs)
        return out

    def dump(self, path):
        b = self.body(path)
        if b is None:
            return "no such body: %s" % path
        return dump_body(b)


def fmt_place(b, pl):
    s = "_%d" % pl["l"]
    nm = b.local_name(pl["l"])
    if nm:
        s += "'%s" % nm
    for e in pl["p"]:
        if e == "*":
            s = "(*%s)" % s
        elif isinstance(e, dict) and "f" in e:
            s += ".%s" % (e["n"] or e["f"])
        elif isinstance(e, dict) and "dc" in e:
            s += " as %s" % e["dc"]
        elif isinstance(e, dict) and "idx" in e:
            s += "[_%d]" % e["idx"]
        else:
            s += "[%s]" % (e,)
    return s


def fmt_op(b, op):
    if op["k"] in ("copy", "move"):
        return "%s %s" % (op["k"], fmt_place(b, op["pl"]))
    if op["k"] == "const":
        if op.get("fn"):
            return "fn %s" % op["fn"]
        return "const %s" % (op.get("val") if op.get("val") is not None else op.get("text"))
    return str(op)


def fmt_rv(b, rv):
    k = rv["k"]
    if k == "use":
        return fmt_op(b, rv["ops"][0])
    if k == "ref":
        return "&%s%s" % ("mut " if rv["mut"] else "", fmt_place(b, rv["pl"]))
    if k == "rawptr":
        return "&raw %s" % fmt_place(b, rv["pl"])
    if k == "discr":
        return "discriminant(%s)" % fmt_place(b, rv["pl"])
    if k == "binop":
        return "%s(%s, %s)" % (rv["op"], fmt_op(b, rv["ops"][0]), fmt_op(b, rv["ops"][1]))
    if k == "unop":
        return "%s(%s)" % (rv["op"], fmt_op(b, rv["ops"][0]))
    if k == "cast":
        return "%s as %s [%s]" % (fmt_op(b, rv["ops"][0]), rv["ty"], rv["ck"])
    if k == "aggregate":
        nm = rv.get("closure") or ((rv.get("adt") or rv["ak"]) + ("::" + rv["variant"] if rv.get("variant") else ""))
        return "%s{%s}" % (nm, ", ".join(fmt_op(b, o) for o in rv["ops"]))
    return rv.get("text", k)


def dump_body(b):
    lines = ["fn %s  [%s:%d-%d] kind=%s args=%d" % (b.path, b.file, b.line_lo, b.line_hi, b.kind, b.nargs)]
    for i, l in enumerate(b.locals):
        lines.append("  let _%d%s: %s" % (i, "'" + l["name"] if l.get("name") else "", l["ty"]))
    for i, blk in enumerate(b.blocks):
        lines.append("bb%d%s:" % (i, " (cleanup)" if blk["cleanup"] else ""))
        for st in blk["stmts"]:
            if st["k"] == "assign":
                lines.append("    %s = %s   // L%s" % (fmt_place(b, st["pl"]), fmt_rv(b, st["rv"]), st["line"]))
            else:
                lines.append("    %s" % (st,))
        t = blk["term"]
        k = t["k"]
        if k == "call":
            lines.append("    %s = %s(%s) -> bb%s unwind %s   // L%s%s" % (
                fmt_place(b, t["dest"]), t.get("resolved") or t.get("callee"),
                ", ".join(fmt_op(b, a) for a in t["args"]), t.get("target"), t.get("unwind"), t["line"],
                " DYN" if t.get("dyn") else ""))
        elif k == "switch":
            lines.append("    switch(%s) %s else bb%s   // L%s" % (
                fmt_op(b, t["discr"]), ", ".join("%s->bb%s" % (v, tg) for v, tg in t["targets"]), t["otherwise"], t["line"]))
        elif k == "drop":
            lines.append("    drop(%s) -> bb%s unwind %s   // L%s" % (fmt_place(b, t["pl"]), t["target"], t.get("unwind"), t["line"]))
        elif k == "goto":
            lines.append("    goto bb%s" % t["target"])
        elif k == "assert":
            lines.append("    assert(%s == %s) -> bb%s" % (fmt_op(b, t["cond"]), t["expected"], t["target"]))
        else:
            lines.append("    %s" % k)
    return "\n".join(lines)
