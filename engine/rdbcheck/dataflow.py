"""Def-use origin resolver and small value-level helpers over MIR facts."""
from .cfg import strip_generics

# Calls through which a value is considered "the same value / derived view of" its first argument.
TRANSPARENT = {
    "<std::sync::Arc<T, A> as std::ops::Deref>::deref",
    "<std::rc::Rc<T, A> as std::ops::Deref>::deref",
    "<std::boxed::Box<T, A> as std::ops::Deref>::deref",
    "<std::vec::Vec<T, A> as std::ops::Deref>::deref",
    "<std::vec::Vec<T, A> as std::ops::DerefMut>::deref_mut",
    "<std::string::String as std::ops::Deref>::deref",
    "<std::path::PathBuf as std::ops::Deref>::deref",
    "<parking_lot::lock_api::MutexGuard<'a, R, T> as std::ops::Deref>::deref",
    "<parking_lot::lock_api::MutexGuard<'a, R, T> as std::ops::DerefMut>::deref_mut",
    "<parking_lot::lock_api::RwLockReadGuard<'a, R, T> as std::ops::Deref>::deref",
    "<parking_lot::lock_api::RwLockWriteGuard<'a, R, T> as std::ops::Deref>::deref",
    "<parking_lot::lock_api::RwLockWriteGuard<'a, R, T> as std::ops::DerefMut>::deref_mut",
    "<parking_lot::lock_api::MappedRwLockReadGuard<'a, R, T> as std::ops::Deref>::deref",
    "parking_lot::lock_api::RwLock::read",
    "parking_lot::lock_api::RwLock::write",
    "<std::result::Result<T, E> as std::ops::Try>::branch",
    "<std::option::Option<T> as std::ops::Try>::branch",
    "std::ops::Deref::deref",
    "std::ops::DerefMut::deref_mut",
    "<std::sync::Arc<T, A> as std::clone::Clone>::clone",
    "<std::rc::Rc<T, A> as std::clone::Clone>::clone",
    "<std::option::Option<T> as std::clone::Clone>::clone",
    "<std::vec::Vec<T, A> as std::clone::Clone>::clone",
    "<std::result::Result<T, E> as std::clone::Clone>::clone",
    "<std::string::String as std::clone::Clone>::clone",
    "<std::path::PathBuf as std::clone::Clone>::clone",
    "<std::boxed::Box<T, A> as std::clone::Clone>::clone",
    "std::clone::Clone::clone",
    "std::clone::impls::clone",
    "std::option::Option::as_ref",
    "std::option::Option::as_mut",
    "std::option::Option::unwrap",
    "std::option::Option::cloned",
    "std::option::Option::take",
    "std::option::Option::expect",
    "std::result::Result::unwrap",
    "std::result::Result::expect",
    "std::result::Result::as_ref",
    "std::convert::AsRef::as_ref",
    "<std::sync::Arc<T, A> as std::convert::AsRef<T>>::as_ref",
    "<std::rc::Rc<T, A> as std::convert::AsRef<T>>::as_ref",
    "std::sync::Arc::new",
    "std::rc::Rc::new",
    "std::boxed::Box::new",
    "std::hint::must_use",
    "<T as std::convert::Into<U>>::into",
    "std::convert::From::from",
    "std::borrow::Borrow::borrow",
    "std::vec::Vec::as_slice",
    "std::slice::to_vec",
    "std::str::to_owned",
    "std::borrow::ToOwned::to_owned",
    "std::mem::take",
    "std::mem::replace",
    # repository-local value-preserving accessors
    "key::InternalKey::clone",
    "<key::InternalKey as std::clone::Clone>::clone",
}


class Origin:
    __slots__ = ("kind", "name", "site", "path", "body", "extra")

    def __init__(self, kind, name, site=None, path=(), body=None, extra=None):
        self.kind = kind      # 'call' | 'param' | 'const' | 'agg' | 'binop' | 'unknown' | 'upvar'
        self.name = name
        self.site = site
        self.path = tuple(path)  # field names applied on top of the origin value (outermost last)
        self.body = body
        self.extra = extra

    def key(self):
        return (self.kind, self.name, self.path)

    def __repr__(self):
        p = "".join("." + str(x) for x in self.path)
        return "<%s %s%s>" % (self.kind, self.name, p)


def _proj_fields(pl):
    out = []
    for e in pl["p"]:
        if isinstance(e, dict) and "f" in e:
            out.append(e["n"] if e["n"] != "" else str(e["f"]))
    return out


def _is_closure_value(body, l):
    ds = [d for d in body.defs().get(l, []) if d[0] == "stmt" and not d[3]["pl"]["p"]]
    return len(ds) == 1 and ds[0][3]["rv"]["k"] == "aggregate" and ds[0][3]["rv"].get("ak") == "closure"


def origins(body, x, depth=24, transparent=TRANSPARENT, _seen=None):
    """Origins of an operand (dict with k copy/move/const) or place (dict with l,p)."""
    if _seen is None:
        _seen = set()
    if "k" in x:
        if x["k"] == "const" and "::promoted[" in (x.get("text") or ""):
            import re as _re
            m = _re.search(r"promoted\[(\d+)\]", x["text"])
            pb = body.promoted(int(m.group(1))) if m and hasattr(body, "promoted") else None
            if pb is not None:
                return [Origin(o.kind, o.name, o.site, o.path, body, o.extra) for o in origins(pb, {"l": 0, "p": []}, depth - 1, transparent)]
        if x["k"] == "const":
            return [Origin("const", x.get("val") if x.get("val") is not None else (x.get("fn") or x.get("text")), body=body, extra=x)]
        if x["k"] in ("copy", "move"):
            return origins(body, x["pl"], depth, transparent, _seen)
        return [Origin("unknown", "operand", body=body)]
    pl = x
    l = pl["l"]
    fields = _proj_fields(pl)
    if depth <= 0:
        return [Origin("unknown", "depth", body=body, path=fields)]
    key = (l, tuple(fields))
    if key in _seen:
        return []
    _seen = _seen | {key}
    if 1 <= l <= body.nargs:
        if body.kind == "closure" and l == 1:
            # upvar access: _1.field
            return [Origin("upvar", fields[0] if fields else "self", body=body, path=fields[1:])]
        return [Origin("param", l, body=body, path=fields)]
    res = []
    defs = body.defs().get(l, [])
    if not defs:
        return [Origin("unknown", "nodef:_%d" % l, body=body, path=fields)]
    for d in defs:
        if d[0] == "call":
            t = d[3]
            name = strip_generics(t.get("resolved") or t.get("callee"))
            dname = strip_generics(t.get("callee"))
            if (name in transparent or dname in transparent) and t["args"]:
                for o in origins(body, t["args"][0], depth - 1, transparent, _seen):
                    res.append(Origin(o.kind, o.name, o.site, o.path + tuple(fields), o.body, o.extra))
            else:
                from .cfg import CallSite
                res.append(Origin("call", name, CallSite(body, d[1], t), fields, body))
        elif d[0] == "stmt":
            st = d[3]
            dfields = _proj_fields(st["pl"])
            if st["pl"]["p"] and l in getattr(body, "inlined_params", ()):
                continue    # a store through the parameter of an inlined helper (see inline.py)
            # assignment to a sub-place: only relevant if prefix matches
            rest = fields
            if dfields:
                if fields[:len(dfields)] == dfields:
                    rest = fields[len(dfields):]
                elif dfields[:len(fields)] == fields:
                    rest = []
                else:
                    continue
            rv = st["rv"]
            k = rv["k"]
            if k == "use":
                op0 = rv["ops"][0]
                if rest and op0["k"] in ("copy", "move"):
                    # `x = move y; .. x.f ..`: look at y.f (field-sensitive through plain moves: a tuple / struct returned by an
                    # inlined helper and taken apart by the caller)
                    sub = {"l": op0["pl"]["l"], "p": list(op0["pl"]["p"]) + [{"f": int(r) if r.isdigit() else -1, "n": "" if r.isdigit() else r} for r in rest]}
                    res += origins(body, sub, depth - 1, transparent, _seen)
                else:
                    for o in origins(body, op0, depth - 1, transparent, _seen):
                        res.append(Origin(o.kind, o.name, o.site, o.path + tuple(rest), o.body, o.extra))
            elif k in ("ref", "rawptr"):
                if rest and not rv["pl"]["p"] and _is_closure_value(body, rv["pl"]["l"]):
                    # `(*r).capture` with r = &closure (the body of a directly called local closure, inlined): the captured operand
                    sub = {"l": rv["pl"]["l"], "p": [{"f": int(r) if r.isdigit() else -1, "n": "" if r.isdigit() else r} for r in rest]}
                    res += origins(body, sub, depth - 1, transparent, _seen)
                    continue
                for o in origins(body, rv["pl"], depth - 1, transparent, _seen):
                    res.append(Origin(o.kind, o.name, o.site, o.path + tuple(rest), o.body, o.extra))
            elif k == "cast":
                for o in origins(body, rv["ops"][0], depth - 1, transparent, _seen):
                    res.append(Origin(o.kind, o.name, o.site, o.path + tuple(rest), o.body, o.extra))
            elif k == "aggregate":
                fnames = rv.get("fields") or []
                if rest and rv["ak"] in ("adt", "closure") and rest[0] in fnames and len(fnames) == len(rv["ops"]):
                    i = fnames.index(rest[0])
                    for o in origins(body, rv["ops"][i], depth - 1, transparent, _seen):
                        res.append(Origin(o.kind, o.name, o.site, o.path + tuple(rest[1:]), o.body, o.extra))
                elif rest and rv["ak"] == "tuple" and rest[0].isdigit() and int(rest[0]) < len(rv["ops"]):
                    for o in origins(body, rv["ops"][int(rest[0])], depth - 1, transparent, _seen):
                        res.append(Origin(o.kind, o.name, o.site, o.path + tuple(rest[1:]), o.body, o.extra))
                else:
                    nm = rv.get("closure") or ((rv.get("adt") or rv["ak"]) + ("::" + rv["variant"] if rv.get("variant") else ""))
                    res.append(Origin("agg", nm, None, rest, body, extra=(d[1], st)))
                    if not rest and rv.get("variant") in ("Some", "Ok", "Err") and len(rv["ops"]) == 1:
                        # value-carrying wrapper: the payload's origins are origins of the wrapped value too
                        for o in origins(body, rv["ops"][0], depth - 1, transparent, _seen):
                            res.append(Origin(o.kind, o.name, o.site, o.path, o.body, o.extra))
            elif k in ("binop", "unop", "discr"):
                res.append(Origin(k, rv.get("op", "discr"), None, rest, body, extra=(d[1], st)))
            else:
                res.append(Origin("unknown", k, None, rest, body))
        else:
            res.append(Origin("unknown", d[0], None, fields, body))
    return res


def origin_calls(body, x, **kw):
    """Set of stripped callee names among the origins."""
    return {o.name for o in origins(body, x, **kw) if o.kind == "call"}


def derives_from_call(body, x, names, **kw):
    names = set(names) if not isinstance(names, str) else {names}
    return any(o.kind == "call" and o.name in names for o in origins(body, x, **kw))


def operand_local(op):
    if op["k"] in ("copy", "move"):
        return op["pl"]["l"]
    return None


def switch_on(body, bb):
    """If bb ends in a switch, describe what is tested: returns dict(kind=..., ...):
    kind 'discr' (of place origin), 'bool-call' (call result), 'binop', 'flag', 'unknown'."""
    t = body.term(bb)
    if t["k"] != "switch":
        return None
    d = t["discr"]
    if d["k"] == "const":
        return {"kind": "const", "val": d.get("val")}
    l = d["pl"]["l"]
    # find the defining statement in this block first, then anywhere
    defs = body.defs().get(l, [])
    out = []
    for df in defs:
        if df[0] == "stmt":
            rv = df[3]["rv"]
            if rv["k"] == "discr":
                out.append({"kind": "discr", "pl": rv["pl"], "bb": df[1]})
            elif rv["k"] == "binop":
                out.append({"kind": "binop", "op": rv["op"], "ops": rv["ops"], "bb": df[1]})
            elif rv["k"] == "unop":
                out.append({"kind": "unop", "op": rv["op"], "ops": rv["ops"], "bb": df[1]})
            elif rv["k"] == "use":
                out.append({"kind": "use", "op": rv["ops"][0], "bb": df[1]})
            else:
                out.append({"kind": "unknown"})
        elif df[0] == "call":
            from .cfg import CallSite
            out.append({"kind": "call", "site": CallSite(body, df[1], df[3])})
    if len(out) == 1:
        return out[0]
    return {"kind": "multi", "defs": out}


EXTRA_ROOT_TRANSPARENT = {
    "compaction::state::CompactionState::compaction_manifest_mut",
    "compaction::state::CompactionState::compaction_manifest",
}


def roots(body, op, depth=10, seen=None, extra=EXTRA_ROOT_TRANSPARENT):
    """Locals from which an operand is derived through refs/derefs/moves/transparent calls."""
    out = set()
    if op["k"] not in ("copy", "move"):
        return out
    l = op["pl"]["l"]
    seen = seen if seen is not None else set()
    if l in seen or depth <= 0:
        return out
    seen.add(l)
    out.add(l)
    for d in body.defs().get(l, []):
        if d[0] == "stmt":
            rv = d[3]["rv"]
            if rv["k"] in ("use", "cast") and rv["ops"][0]["k"] in ("copy", "move"):
                out |= roots(body, rv["ops"][0], depth - 1, seen, extra)
            elif rv["k"] in ("ref", "rawptr"):
                out |= roots(body, {"k": "copy", "pl": rv["pl"]}, depth - 1, seen, extra)
            elif rv["k"] == "aggregate" and len(rv["ops"]) == 1 and rv.get("variant") in ("Some", "Ok", "Err"):
                out |= roots(body, rv["ops"][0], depth - 1, seen, extra)
        elif d[0] == "call":
            t = d[3]
            nm = strip_generics(t.get("resolved") or t.get("callee"))
            if (nm in TRANSPARENT or nm in extra) and t["args"]:
                out |= roots(body, t["args"][0], depth - 1, seen, extra)
    return out


def deep_origins(P, body, x, depth=2, **kw):
    """origins(), with results of statically dispatched local helper calls expanded into the helper's return-value
    origins (one tuple field deep), so that extracting code into a helper does not hide where a value comes from."""
    out = []
    for o in origins(body, x, **kw):
        out += _expand(P, o, depth, kw)
    return out


def _expand(P, o, depth, kw):
    if depth <= 0 or o.kind != "call" or o.site is None:
        return [o]
    t = o.site.t
    callee = t.get("resolved")
    if not t.get("local"):
        exp = _expand_combinator(P, o, depth, kw)
        if exp is not None:
            return exp
    if not (t.get("local") and not t.get("dyn") and callee in P.bodies):
        return [o]
    cb = P.bodies[callee]
    proj = []
    rest = list(o.path)
    if rest and cb.local_ty(0).startswith("("):
        idx = rest.pop(0)
        if str(idx).isdigit():
            proj = [{"f": int(idx), "n": "", "t": "", "a": ""}]
    inner = origins(cb, {"l": 0, "p": proj}, **kw)
    res = []
    for i in inner:
        if i.kind in ("unknown",):
            continue
        ni = Origin(i.kind, i.name, i.site, tuple(i.path) + tuple(rest), i.body, i.extra)
        res += _expand(P, ni, depth - 1, kw)
    # an accessor (value derives only from its parameters / fields / constants) stays opaque: it is the named source
    if not any(i.kind == "call" for i in res) and not proj:
        return [o]
    return res


# Option / Result combinators that run the closures they are handed before they return and whose result is (or wraps) what a
# closure returned - `opt.map_or_else(|| a(), |x| b(x))` for `match opt { None => a(), Some(x) => b(x) }`
VALUE_COMBINATORS = {"map_or_else", "map_or", "unwrap_or_else", "map", "and_then", "or_else", "ok_or_else", "unwrap_or", "or", "ok_or"}


def _expand_combinator(P, o, depth, kw):
    """the value of `recv.<combinator>(.., closure, ..)`: what the closures written at the call site return (their captures
    followed back into the calling function) and the plain-value arguments (`map_or(default, ..)`).  None when the call is not such
    a combinator or a closure is not one written at the call site."""
    name = o.name or ""
    if name.rsplit("::", 1)[-1] not in VALUE_COMBINATORS or not (name.startswith("std::option::Option") or name.startswith("std::result::Result")):
        return None
    if o.path:
        return None
    site, res, n_closures = o.site, [], 0
    for a in site.args[1:]:
        aos = origins(site.body, a, **kw)
        cl = [x for x in aos if x.kind == "agg" and x.name in P.bodies and x.extra is not None and P.bodies[x.name].kind == "closure"]
        if not cl:
            res += aos          # a plain default value
            continue
        if len(cl) != len(aos):
            return None
        for x in cl:
            n_closures += 1
            cb, st = P.bodies[x.name], x.extra[1]
            fs = st["rv"].get("fields") or []
            for i in origins(cb, {"l": 0, "p": []}, **kw):
                if i.kind == "upvar" and i.name in fs and len(fs) == len(st["rv"]["ops"]):
                    for po in origins(site.body, st["rv"]["ops"][fs.index(i.name)], **kw):
                        res += _expand(P, Origin(po.kind, po.name, po.site, tuple(po.path) + tuple(i.path), po.body, po.extra), depth - 1, kw)
                elif i.kind == "param":
                    # the payload of the receiver: stands for the receiver itself
                    res += origins(site.body, site.args[0], **kw)
                else:
                    res += _expand(P, i, depth - 1, kw)
    return res if n_closures else None
