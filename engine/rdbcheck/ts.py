"""TS engine: typestate of the log-fragment reassembly buffer in LogReader::read_record.

Abstract state while walking the flag-sensitive product CFG:
  buf      EMPTY | PARTIAL (First Middle*) | COMPLETE (… Last / Full) | DIRTY (anything else)
  pending  an `extend` of the buffer happened before the fragment type of this physical record was examined
  variant  the BlockType variant known on this path for the current physical record (None before the match)

Transitions
  read_physical_record call ........ variant := None, pending := False
  Vec::new / clear / mem::take ..... buf := EMPTY
  extend(buf, fragment) ............ if variant known: apply(variant) else pending := True
  edge `block_type == V` ........... variant := V; if pending: apply(V), pending := False
  Err edge of the physical read that loops back (fragment dropped): PARTIAL -> DIRTY (a fragment is missing)
  apply(First):  EMPTY->PARTIAL, else DIRTY      apply(Middle): PARTIAL->PARTIAL, else DIRTY
  apply(Last):   PARTIAL->COMPLETE, else DIRTY   apply(Full):   EMPTY->COMPLETE, else DIRTY
Check: a block that returns Ok((buffer, false)) must be reached with buf == COMPLETE; returning the current
fragment's own data (not the buffer) is allowed only under variant Full.
"""
from .cfg import strip_generics, ExploreCap, CallSite
from .dataflow import origins, roots
from .rules import result_tests

EXTENDERS = {"<std::vec::Vec<T, A> as std::iter::Extend<T>>::extend", "std::vec::Vec::extend_from_slice", "std::vec::Vec::append",
             "<std::vec::Vec<T, A> as std::iter::Extend<&'a T>>::extend", "std::iter::Extend::extend", "std::vec::Vec::extend_from_within",
             "std::vec::Vec::push"}
CLEARERS = {"std::vec::Vec::clear", "std::vec::Vec::truncate", "std::mem::take", "std::vec::Vec::drain"}
READ_PHYS = "logs::LogReader::read_physical_record"


def apply(v, buf):
    if v == "First":
        return "PARTIAL" if buf == "EMPTY" else "DIRTY"
    if v == "Middle":
        return "PARTIAL" if buf == "PARTIAL" else "DIRTY"
    if v == "Last":
        return "COMPLETE" if buf == "PARTIAL" else "DIRTY"
    if v == "Full":
        return "COMPLETE" if buf == "EMPTY" else "DIRTY"
    return "DIRTY"


def analyse(P, body):
    """returns dict(violations=[...], returns_checked=n, buffers=[...], explored=n)"""
    enum = {int(v): n for n, v in P.facts.get("enums", {}).get("logs::BlockType", [])}
    # buffers: Vec<u8> locals that receive fragments
    buffers = set()
    for c in body.calls():
        if c.name in EXTENDERS and c.args and not body.is_cleanup(c.bb):
            for l in roots(body, c.args[0]):
                if body.local_ty(l).startswith("std::vec::Vec<u8") and body.local_name(l) is not None:
                    buffers.add(l)
    # variant switches: discriminant of a place ending in field block_type
    var_edges = {}   # (bb, target) -> variant
    for bb in range(body.n):
        for st in body.blocks[bb]["stmts"]:
            if st["k"] == "assign" and st["rv"]["k"] == "discr":
                fs = [e for e in st["rv"]["pl"]["p"] if isinstance(e, dict) and "f" in e]
                if fs and fs[-1]["n"] == "block_type":
                    d = st["pl"]["l"]
                    for sb in range(body.n):
                        t = body.term(sb)
                        if t["k"] == "switch" and t["discr"]["k"] in ("copy", "move") and t["discr"]["pl"]["l"] == d:
                            listed = set()
                            for v, tg in t["targets"]:
                                var_edges[(sb, tg)] = enum.get(int(v))
                                listed.add(int(v))
                            rest = [n for k, n in enum.items() if k not in listed]
                            if len(rest) == 1:
                                var_edges[(sb, t["otherwise"])] = rest[0]
                            elif len(rest) > 1 and t.get("otherwise") is not None:
                                # `matches!(record.block_type, Full)`: on the other edge the fragment is one of several types
                                var_edges[(sb, t["otherwise"])] = tuple(sorted(rest))
    # dropped-fragment edges: Err edges of the physical read's result
    phys = [c for c in body.calls() if c.name == READ_PHYS and not body.is_cleanup(c.bb)]
    err_edges = set()
    ok_edges = set()
    from . import err as _err
    for c in phys:
        A = _err.forward_aliases(body, c.dest["l"])
        for t in result_tests(body, c.dest["l"]):
            for e in t.err_edges():
                err_edges.add(e)
            if not (t.kind == "match" and _err.is_drop_glue_switch(body, t.bb, A)):
                for e in t.ok_edges():
                    ok_edges.add(e)
    phys_bbs = {c.bb for c in phys}
    # return sites: _0 = Ok((X, false))
    ret_checks = {}   # bb -> ("buffer"| "fragment" | "other")
    for bb in range(body.n):
        if body.is_cleanup(bb):
            continue
        for st in body.blocks[bb]["stmts"]:
            if st["k"] == "assign" and st["pl"]["l"] == 0 and st["rv"]["k"] == "aggregate" and st["rv"].get("variant") == "Ok":
                tup = st["rv"]["ops"][0]
                if tup["k"] not in ("copy", "move"):
                    continue
                for d in body.defs().get(tup["pl"]["l"], []):
                    if d[0] == "stmt" and d[3]["rv"]["k"] == "aggregate" and d[3]["rv"]["ak"] == "tuple" and len(d[3]["rv"]["ops"]) == 2:
                        data_op, eof_op = d[3]["rv"]["ops"]
                        if eof_op["k"] == "const" and eof_op.get("val") == "0":
                            rl = roots(body, data_op) if data_op["k"] in ("copy", "move") else set()
                            if rl & buffers:
                                ret_checks[bb] = ("buffer", st["line"])
                            elif any("data" in o.path for o in origins(body, data_op)):
                                ret_checks[bb] = ("fragment", st["line"])
                            else:
                                ret_checks[bb] = ("other", st["line"])
    violations = []
    seen_v = set()

    ALL = tuple(sorted(enum.values()))

    def check_fragment_used(bb, buf_now, variant, ext, pre, line):
        """a First/Middle/Last fragment that belongs to the record being assembled must have been appended before the
        reader moves on to the next physical record (or returns)"""
        if isinstance(variant, tuple):
            # the fragment was delivered but its type was not (fully) examined on this path: it may be a First fragment
            if "First" in variant and not ext:
                key = (bb, "dropped", variant)
                if key not in seen_v:
                    seen_v.add(key)
                    violations.append({"line": line, "state": "DROPPED", "variant": "/".join(variant),
                                       "detail": "a fragment whose type was not examined beyond {%s} can be skipped without being appended: a First "
                                                 "fragment (also the payload-less one the writer emits when only a header fits) loses the start of its record" % ", ".join(variant)})
            return
        if variant in ("Middle", "Last") and pre == "PARTIAL" and not ext:
            key = (bb, "dropped", variant)
            if key not in seen_v:
                seen_v.add(key)
                violations.append({"line": line, "state": "DROPPED", "variant": variant,
                                   "detail": "a %s fragment of the record being assembled can be skipped without being appended (the record is lost or truncated)" % variant})
        if variant == "First" and not ext:
            key = (bb, "dropped", variant)
            if key not in seen_v:
                seen_v.add(key)
                violations.append({"line": line, "state": "DROPPED", "variant": variant,
                                   "detail": "a First fragment can be skipped without being appended (the start of the record is lost)"})

    def transfer(bb, us, phase, data):
        buf, pending, variant, ext, pre = us
        if phase == "stmts":
            # buffer re-initialisation by assignment of a fresh Vec (vec![] lowers to a call; `= Vec::new()` too)
            if bb in ret_checks:
                kind, line = ret_checks[bb]
                if kind == "buffer":
                    eff = buf if not pending else "DIRTY"
                    if eff != "COMPLETE":
                        key = (bb, eff)
                        if key not in seen_v:
                            seen_v.add(key)
                            violations.append({"line": line, "state": eff, "variant": variant,
                                               "detail": "a record is returned from a buffer in state %s%s" % (
                                                   eff, " (fragment type not yet examined when it was appended)" if pending else "")})
                elif kind == "fragment":
                    if variant != "Full":
                        key = (bb, "frag", variant)
                        if key not in seen_v:
                            seen_v.add(key)
                            violations.append({"line": line, "state": buf, "variant": variant,
                                               "detail": "a single fragment's data is returned as a record under fragment type %s" % variant})
                check_fragment_used(bb, buf, variant, ext, pre, line)
            return us
        lab, tg = data
        t = body.term(bb)
        if (bb, tg) in ok_edges and variant is None:
            variant = ALL
        if (bb, tg) in var_edges and var_edges[(bb, tg)] is not None:
            nv = var_edges[(bb, tg)]
            if isinstance(nv, tuple):
                # narrowed to several candidates: intersect with what is already known
                if isinstance(variant, tuple):
                    both = tuple(x for x in nv if x in variant)
                    variant = both[0] if len(both) == 1 else (both or nv)
                elif variant is None:
                    variant = nv
            else:
                variant = nv
            if not isinstance(variant, tuple):
                pre = buf if not pending else "PENDING"
                if pending:
                    buf = apply(variant, buf)
                    pending = False
                    ext = True
        if (bb, tg) in err_edges:
            # the physical record could not be delivered: whatever follows continues without this fragment
            if buf == "PARTIAL":
                buf = "BROKEN"
        if t["k"] == "call" and lab == "ret":
            nm = strip_generics(t.get("resolved") or t.get("callee"))
            if bb in phys_bbs:
                check_fragment_used(bb, buf, variant, ext, pre, t.get("line"))
                variant = None
                pending = False
                ext = False
                pre = None
            elif nm in EXTENDERS and t["args"] and (roots(body, t["args"][0]) & buffers):
                if buf == "BROKEN":
                    buf = "DIRTY"
                ext = True
                if variant is not None and not isinstance(variant, tuple):
                    buf = apply(variant, buf)
                else:
                    pending = True
            elif nm in CLEARERS and t["args"] and (roots(body, t["args"][0]) & buffers):
                buf = "EMPTY"
                pending = False
            elif nm in ("std::vec::Vec::new", "std::vec::from_elem", "std::vec::Vec::with_capacity") and not t["dest"]["p"] and t["dest"]["l"] in buffers:
                buf = "EMPTY"
                pending = False
        return (buf, pending, variant, ext, pre)

    explored = 0
    try:
        seen, _ = body.explore(("EMPTY", False, None, False, None), transfer)
        explored = len(seen)
    except ExploreCap:
        violations.append({"line": body.line_lo, "state": "?", "variant": None, "detail": "exploration cap reached (fail closed)"})
    return {"violations": violations, "returns_checked": len(ret_checks), "buffers": sorted(buffers), "explored": explored,
            "variant_edges": len(var_edges), "dropped_fragment_edges": len(err_edges),
            "return_kinds": sorted({k for k, _ in ret_checks.values()})}
