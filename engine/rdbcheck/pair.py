"""PAIR engine: obligations created by one call must be discharged by another on every flag-feasible path.

Resource tracking is a small typestate run over the flag-sensitive product CFG:
  state = (carriers: frozenset of locals that currently own the resource, dirty: bool)
  * acquisition: the return edge of an acquiring call puts its destination into `carriers`
  * moves (`_y = move _x`, `_y = move (_x as Some).0`, aggregates) transfer ownership
  * a by-value argument to a discharging callee, or a `&mut`/`&` borrow of a carrier handed to a discharging
    method, ends the obligation
  * a by-value argument to any other callee: if the callee's result type can hold the resource the destination
    becomes the carrier, otherwise ownership is transferred away (accepted; listed in evidence)
  * `dirty` is set by any call (while the resource is live) that reaches a lock-release point or a version
    installation: from then on the pinned object may have been superseded
  * `drop(carrier)` while dirty  => VIOLATION (the pin is leaked: nothing will ever unlink it)
"""
from .cfg import strip_generics, ExploreCap
from .dataflow import TRANSPARENT


from .dataflow import roots  # noqa: E402,F401


class Spec:
    def __init__(self, name, acquire, discharge, holder_types, dirty_pred, transfer_ok=()):
        self.name = name
        self.acquire = set(acquire)          # callee names whose result owns the resource
        self.discharge = set(discharge)      # callee names that end the obligation
        self.holder_types = holder_types     # substrings: a local whose type contains one can own the resource
        self.dirty_pred = dirty_pred         # callsite -> bool
        self.transfer_ok = set(transfer_ok)  # callees that legitimately take ownership


def _can_hold(body, l, spec):
    ty = body.local_ty(l)
    return any(h in ty for h in spec.holder_types)


def run_spec(P, body, spec, acquire_sites):
    """Returns (violations, stats). violations: list of dict(where, detail)."""
    viol = []
    transfers = []
    explored = 0
    for acq in acquire_sites:
        if acq.dest["p"] or acq.target is None:
            continue
        start_local = acq.dest["l"]
        state0 = (frozenset([start_local]), False)
        seen_v = set()

        def transfer(bb, us, phase, data, acq=acq):
            if us is None:
                return None
            carriers, dirty = us
            if not carriers:
                return None   # obligation ended: stop exploring this path
            if phase == "stmts":
                cur = set(carriers)
                for st in data["stmts"]:
                    if st["k"] != "assign":
                        continue
                    rv = st["rv"]
                    dst = st["pl"]["l"]
                    srcs = []
                    if rv["k"] == "use" and rv["ops"][0]["k"] == "move":
                        srcs = [rv["ops"][0]]
                    elif rv["k"] == "aggregate":
                        srcs = [o for o in rv["ops"] if o["k"] == "move"]
                    for o in srcs:
                        sl = o["pl"]["l"]
                        if sl in cur and _can_hold(body, dst, spec):
                            # moving the payload (or the whole thing) into dst
                            if not o["pl"]["p"] or _proj_holds(o["pl"], spec):
                                cur.discard(sl)
                                cur.add(dst)
                    # overwriting a carrier without a move out: `x = None` etc. (drop-and-replace emits a drop first)
                return (frozenset(cur), dirty)
            lab, tg = data
            t = body.term(bb)
            cur = set(carriers)
            if t["k"] == "drop":
                pl = t["pl"]
                if pl["l"] in cur and (not pl["p"] or _proj_holds(pl, spec) or True):
                    if dirty:
                        key = (bb,)
                        if key not in seen_v:
                            seen_v.add(key)
                            viol.append({"where": "%s:%s" % (body.file, t.get("line")), "acq": acq,
                                         "detail": "resource acquired by %s at line %s is dropped at line %s after a lock-release point / "
                                                   "version installation, without %s" % (acq.name, acq.line, t.get("line"), sorted(spec.discharge))})
                    cur.discard(pl["l"])
                return (frozenset(cur), dirty)
            if t["k"] == "call":
                nm = strip_generics(t.get("resolved") or t.get("callee"))
                if lab == "unwind":
                    return (frozenset(cur), dirty)
                moved = [a["pl"]["l"] for a in t["args"] if a["k"] == "move" and not a["pl"]["p"] and a["pl"]["l"] in cur]
                if nm in spec.discharge:
                    # by-value discharge, or a borrow of a carrier handed to the discharging method
                    rl = set()
                    for a in t["args"]:
                        rl |= roots(body, a)
                    if moved or (rl & cur):
                        return (frozenset(), dirty)
                if moved:
                    for m in moved:
                        cur.discard(m)
                    if not t["dest"]["p"] and _can_hold(body, t["dest"]["l"], spec):
                        cur.add(t["dest"]["l"])
                    else:
                        transfers.append((nm, "%s:%s" % (body.file, t.get("line"))))
                        if nm not in spec.transfer_ok:
                            viol.append({"where": "%s:%s" % (body.file, t.get("line")), "acq": acq,
                                         "detail": "ownership of the resource acquired by %s is handed to %s, which is not a known owner" % (acq.name, nm),
                                         "kind": "transfer"})
                        return (frozenset(cur), dirty)
                from .cfg import CallSite
                cs = CallSite(body, bb, t)
                if cur and spec.dirty_pred(cs):
                    dirty = True
            return (frozenset(cur), dirty)

        try:
            seen, _ = body.explore(state0, transfer, start=acq.target)
            explored += len(seen)
        except ExploreCap:
            viol.append({"where": "%s:%s" % (body.file, acq.line), "acq": acq, "detail": "path exploration cap reached (fail closed)", "kind": "cap"})
    return viol, {"explored": explored, "transfers": transfers}


def _proj_holds(pl, spec):
    for e in pl["p"]:
        if isinstance(e, dict) and "f" in e and any(h in (e.get("t") or "") for h in spec.holder_types):
            return True
        if isinstance(e, dict) and "dc" in e:
            return True
    return False
