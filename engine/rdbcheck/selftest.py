"""Checker self-validation: apply each catalogue entry to a scratch copy of the current /repo (outside /repo and
/verif, removed afterwards), regenerate facts, run the listed checks and record which rule fired."""
import importlib.util
import os
import shutil
import subprocess
import sys
import tempfile
from concurrent.futures import ProcessPoolExecutor

from . import facts, cfg, report, lck

VERIF = facts.VERIF


def catalogue():
    p = os.path.join(VERIF, "selftest", "mutants.py")
    spec = importlib.util.spec_from_file_location("rdb_mutants", p)
    m = importlib.util.module_from_spec(spec)
    spec.loader.exec_module(m)
    return m.M


def _scratch_copy():
    d = tempfile.mkdtemp(prefix="rdbself.")
    # tools/seed_confirm.py applies a seeded change to /repo itself for the duration of its check run and holds this lock
    # meanwhile: never copy a tree that has such a change applied
    import fcntl
    with open("/tmp/.seed_confirm_repo.lock", "w") as lf:
        fcntl.flock(lf, fcntl.LOCK_EX)
        for name in ("src", "examples"):
            shutil.copytree(os.path.join(facts.REPO, name), os.path.join(d, name))
        for name in ("Cargo.toml", "Cargo.lock"):
            shutil.copy(os.path.join(facts.REPO, name), os.path.join(d, name))
    return d


def _apply(entry, d):
    if entry.get("patch"):
        pp = os.path.join(VERIF, "selftest", "patches", entry["patch"])
        r = subprocess.run(["patch", "-p1", "-s", "-i", pp], cwd=d, stdout=subprocess.PIPE, stderr=subprocess.STDOUT, text=True)
        return r.returncode == 0
    for (fn, old, new) in [(entry["file"], entry["old"], entry["new"])] + list(entry.get("extra", [])):
        f = os.path.join(d, fn)
        s = open(f).read()
        if old not in s:
            return False
        s = s.replace(old, new)
        open(f, "w").write(s)
    return True


def _violations(prop, repo):
    """violating keys (not known findings) of one property on a tree"""
    import importlib
    f, meta = facts.load(repo=repo)
    P = cfg.Program(f)
    L = lck.LockInfo(P)
    R = report.Report(prop, "thorough")
    mod = importlib.import_module("rdbcheck.props.%s" % prop.lower())
    mod.run(P, R, L)
    ev, lines, rc = R.finish(report.load_known_findings(), write_replay=False)
    return ev["coverage"]["violating_instances"]


def run_entry(args):
    entry, props = args
    d = _scratch_copy()
    res = {"name": entry["name"], "kind": entry["kind"], "expect": entry["expect"], "results": {}}
    try:
        if not _apply(entry, d):
            res["stale"] = True
            return res
        for p in props:
            try:
                res["results"][p] = _violations(p, d)
            except facts.FactsError as e:
                res["compile_error"] = str(e)[-600:]
                break
            except Exception as e:  # noqa
                res["results"][p] = ["checker-crash: %r" % e]
    finally:
        shutil.rmtree(d, ignore_errors=True)
    return res


def run_matrix(prop=None, run_prop=None, jobs=8, names=None):
    cat = catalogue()
    work = []
    for e in cat:
        props = [p for p in e["props"] if prop is None or p == prop]
        if not props or (names and e["name"] not in names):
            continue
        work.append((e, props))
    out = {"mutants": [], "benign": []}
    if not work:
        return out
    with ProcessPoolExecutor(max_workers=min(jobs, len(work))) as ex:
        for r in ex.map(run_entry, work):
            if r["kind"] == "mutant":
                fired = {p: [k for k in ks if r["expect"] in k] for p, ks in r["results"].items()}
                r["killed_by"] = sorted(p for p, ks in fired.items() if ks)
                r["killed"] = bool(r["killed_by"]) and not r.get("stale") and not r.get("compile_error")
                r["fired"] = {p: ks[:3] for p, ks in r["results"].items()}
                r.pop("results")
                out["mutants"].append(r)
            else:
                noisy = {p: ks for p, ks in r["results"].items() if ks}
                r["silent"] = not noisy and not r.get("stale") and not r.get("compile_error")
                r["noise"] = {p: ks[:3] for p, ks in noisy.items()}
                r.pop("results")
                out["benign"].append(r)
    return out


if __name__ == "__main__":
    import json
    sys.path.insert(0, os.path.join(VERIF, "engine"))
    prop = sys.argv[1] if len(sys.argv) > 1 and sys.argv[1] != "all" else None
    names = set(sys.argv[2:]) or None
    m = run_matrix(prop, jobs=12, names=names)
    for r in m["mutants"]:
        st = "STALE" if r.get("stale") else "NOCOMPILE" if r.get("compile_error") else "killed" if r["killed"] else "SURVIVED"
        print("%-9s %-45s by=%s fired=%s" % (st, r["name"], r.get("killed_by"), {p: v for p, v in r["fired"].items() if v}))
        if r.get("compile_error"):
            print("     ", r["compile_error"][-300:].replace("\n", " | "))
    for r in m["benign"]:
        st = "STALE" if r.get("stale") else "NOCOMPILE" if r.get("compile_error") else "silent" if r["silent"] else "NOISY"
        print("%-9s %-45s %s" % (st, r["name"], r["noise"] or ""))
        if r.get("compile_error"):
            print("     ", r["compile_error"][-300:].replace("\n", " | "))
    json.dump(m, open(os.path.join(VERIF, ".cache", "selftest_last.json"), "w"), indent=1)
