"""Shared rule helpers: result/bool tests, must-pass-through, site enumeration."""
from .cfg import strip_generics, CallSite, matcher
from .dataflow import origins, TRANSPARENT

TRY_BRANCH = "<std::result::Result<T, E> as std::ops::Try>::branch"
OPT_TRY_BRANCH = "<std::option::Option<T> as std::ops::Try>::branch"
IS_ERR = "std::result::Result::is_err"
IS_OK = "std::result::Result::is_ok"
IS_SOME = "std::option::Option::is_some"
IS_NONE = "std::option::Option::is_none"


def switch_target(t, val):
    for v, tg in t["targets"]:
        if int(v) == val:
            return tg
    return t["otherwise"]


def switch_edges_except(t, val):
    """All (value-or-'else', target) pairs of a switch other than the one taken for val."""
    taken = switch_target(t, val)
    out = []
    for v, tg in t["targets"]:
        if int(v) != val:
            out.append(tg)
    if taken != t["otherwise"] or all(int(v) != val for v, _ in t["targets"]):
        if not any(int(v) == val for v, _ in t["targets"]):
            pass
        else:
            out.append(t["otherwise"])
    return out


def forward_aliases(body, local, include_refs=True, max_iter=6):
    """Locals that receive the value (or a reference to it) of `local` by plain move/copy/ref."""
    al = {local}
    for _ in range(max_iter):
        grew = False
        for b in range(body.n):
            for st in body.blocks[b]["stmts"]:
                if st["k"] != "assign" or st["pl"]["p"]:
                    continue
                rv = st["rv"]
                src = None
                if rv["k"] == "use" and rv["ops"][0]["k"] in ("copy", "move") and not rv["ops"][0]["pl"]["p"]:
                    src = rv["ops"][0]["pl"]["l"]
                elif include_refs and rv["k"] == "ref" and (not rv["pl"]["p"] or rv["pl"]["p"] == ["*"]):
                    src = rv["pl"]["l"]
                elif rv["k"] == "use" and rv["ops"][0]["k"] in ("copy", "move") and rv["ops"][0]["pl"]["p"] == ["*"]:
                    src = rv["ops"][0]["pl"]["l"]
                if src in al and st["pl"]["l"] not in al:
                    al.add(st["pl"]["l"])
                    grew = True
        if not grew:
            break
    return al


class Test:
    def __init__(self, kind, bb, ok_targets, err_targets, body):
        self.kind = kind
        self.bb = bb
        self.ok = ok_targets      # list of successor blocks taken when the value is Ok/true/Some
        self.err = err_targets    # ... when Err/false/None
        self.body = body

    def ok_edges(self):
        return [(self.bb, t) for t in self.ok]

    def err_edges(self):
        return [(self.bb, t) for t in self.err]

    def __repr__(self):
        return "<test %s bb%d ok->%s err->%s>" % (self.kind, self.bb, self.ok, self.err)


def _switches_on_local(body, l):
    out = []
    for b in range(body.n):
        t = body.term(b)
        if t["k"] == "switch" and t["discr"]["k"] in ("copy", "move") and not t["discr"]["pl"]["p"] and t["discr"]["pl"]["l"] == l:
            out.append(b)
    return out


def _bool_switches(body, l, negate=False, depth=0):
    """Switches deciding on bool local l (following copies and Not). Returns list of (bb, true_targets, false_targets)."""
    res = []
    for a in forward_aliases(body, l, include_refs=False):
        for b in _switches_on_local(body, a):
            t = body.term(b)
            f = switch_target(t, 0)
            tr = [tg for _, tg in body.edges(b) if tg != f] or [t["otherwise"]]
            if negate:
                res.append((b, [f], tr))
            else:
                res.append((b, tr, [f]))
        if depth < 3:
            for b in range(body.n):
                for st in body.blocks[b]["stmts"]:
                    if st["k"] == "assign" and st["rv"]["k"] == "unop" and st["rv"]["op"] == "Not":
                        op = st["rv"]["ops"][0]
                        if op["k"] in ("copy", "move") and not op["pl"]["p"] and op["pl"]["l"] == a and not st["pl"]["p"]:
                            res += _bool_switches(body, st["pl"]["l"], not negate, depth + 1)
    return res


OKNESS_PRESERVING = {"std::result::Result::map_err", "std::result::Result::map", "std::result::Result::inspect_err", "std::result::Result::inspect"}


def result_tests(body, local, _depth=0):
    """Tests of a Result-valued local: `?`, match/if-let, is_err()/is_ok() (also behind map_err / map)."""
    tests = []
    al = forward_aliases(body, local)
    for b in range(body.n):
        for st in body.blocks[b]["stmts"]:
            if st["k"] == "assign" and st["rv"]["k"] == "discr":
                pl = st["rv"]["pl"]
                if pl["l"] in al and all(e == "*" for e in pl["p"]) and not st["pl"]["p"]:
                    for sb in _switches_on_local(body, st["pl"]["l"]):
                        t = body.term(sb)
                        okt = switch_target(t, 0)
                        errt = switch_target(t, 1)
                        tests.append(Test("match", sb, [okt], [errt], body))
        t = body.term(b)
        if t["k"] == "call" and t["args"]:
            a0 = t["args"][0]
            if a0["k"] in ("copy", "move") and a0["pl"]["l"] in al and all(e == "*" for e in a0["pl"]["p"]):
                nm = strip_generics(t.get("resolved") or t.get("callee"))
                if nm == TRY_BRANCH and not t["dest"]["p"]:
                    x = t["dest"]["l"]
                    for bb2 in range(body.n):
                        for st in body.blocks[bb2]["stmts"]:
                            if st["k"] == "assign" and st["rv"]["k"] == "discr" and st["rv"]["pl"]["l"] == x and not st["rv"]["pl"]["p"]:
                                for sb in _switches_on_local(body, st["pl"]["l"]):
                                    tt = body.term(sb)
                                    tests.append(Test("try", sb, [switch_target(tt, 0)], [switch_target(tt, 1)], body))
                elif nm in (IS_ERR, IS_OK) and not t["dest"]["p"]:
                    for (sb, tr, fl) in _bool_switches(body, t["dest"]["l"]):
                        if nm == IS_ERR:
                            tests.append(Test("is_err", sb, fl, tr, body))
                        else:
                            tests.append(Test("is_ok", sb, tr, fl, body))
                elif nm in OKNESS_PRESERVING and not t["dest"]["p"] and _depth < 3:
                    # `.map_err(f)?`, `.map(g)?`: Ok stays Ok and Err stays Err, so a test of the adapted result is a test of this one
                    tests += result_tests(body, t["dest"]["l"], _depth + 1)
    return tests


def bool_tests(body, local):
    """Tests on a bool local: list of Test with ok=true-targets, err=false-targets."""
    return [Test("bool", sb, tr, fl, body) for (sb, tr, fl) in _bool_switches(body, local)]


def option_tests(body, local):
    """Tests of an Option local: match / if let / is_some / is_none. ok = Some targets, err = None targets."""
    tests = []
    al = forward_aliases(body, local)
    for b in range(body.n):
        for st in body.blocks[b]["stmts"]:
            if st["k"] == "assign" and st["rv"]["k"] == "discr":
                pl = st["rv"]["pl"]
                if pl["l"] in al and all(e == "*" for e in pl["p"]) and not st["pl"]["p"]:
                    for sb in _switches_on_local(body, st["pl"]["l"]):
                        t = body.term(sb)
                        tests.append(Test("match", sb, [switch_target(t, 1)], [switch_target(t, 0)], body))
        t = body.term(b)
        if t["k"] == "call" and t["args"]:
            a0 = t["args"][0]
            if a0["k"] in ("copy", "move") and a0["pl"]["l"] in al and all(e == "*" for e in a0["pl"]["p"]):
                nm = strip_generics(t.get("resolved") or t.get("callee"))
                if nm in (IS_SOME, IS_NONE) and not t["dest"]["p"]:
                    for (sb, tr, fl) in _bool_switches(body, t["dest"]["l"]):
                        if nm == IS_SOME:
                            tests.append(Test("is_some", sb, tr, fl, body))
                        else:
                            tests.append(Test("is_none", sb, fl, tr, body))
    return tests


def sites_reaching(P, body, pred, include_cleanup=False, sync_only=True):
    """Call sites in `body` (its own MIR only) that are, or transitively reach, a callee matching pred."""
    out = []
    for cs in body.calls():
        if not include_cleanup and body.is_cleanup(cs.bb):
            continue
        if P.site_reaches(cs, pred, sync_only):
            out.append(cs)
    return out


def dominated_by_sites(body, target_bb, sites):
    """every normal path entry -> target_bb passes through the *return edge* of one of the call sites."""
    edges = [(cs.bb, cs.target) for cs in sites if cs.target is not None]
    return body.must_pass(target_bb, through_edges=edges)


def ok_guarded(body, target_bb, site):
    """target is reachable only over the success edge of the test of site's Result (the site's result
    is tested and every path to target takes an Ok edge). Returns (bool, reason)."""
    if site.dest["p"]:
        return False, "result stored into a projection"
    tests = result_tests(body, site.dest["l"])
    if not tests:
        return False, "result of %s is not tested by ?, match or is_err/is_ok in this body" % site.name
    edges = []
    for t in tests:
        edges += t.ok_edges()
    # must pass the site and one Ok edge
    if not body.must_pass(target_bb, through_edges=[(site.bb, site.target)]):
        return False, "a path reaches the target without executing %s" % site.name
    if not body.must_pass(target_bb, through_edges=edges, start=site.target):
        # the success may be handed on in a second Result (`match site() { Ok(x) => Ok(x), Err(e) => Err(wrap(e)) }` in a helper
        # whose own result the caller tests — the shape an inlined `?`-returning helper has): every Ok(..) written to
        # that Result lies behind the site's Ok edge, and the target behind the Ok edge of its test
        outer = set()
        for bb in range(body.n):
            if body.is_cleanup(bb):
                continue
            for st in body.blocks[bb]["stmts"]:
                rv = st["rv"]
                if st["k"] == "assign" and not st["pl"]["p"] and rv["k"] == "aggregate" and rv.get("variant") == "Ok" \
                        and any(o.kind == "call" and o.site is not None and o.site.bb == site.bb for op in rv.get("ops", []) for o in origins(body, op)):
                    outer.add(st["pl"]["l"])
        for l2 in sorted(outer):
            oks = [bb for bb in range(body.n) if not body.is_cleanup(bb) for st in body.blocks[bb]["stmts"]
                   if st["k"] == "assign" and st["pl"] == {"l": l2, "p": []} and st["rv"]["k"] == "aggregate" and st["rv"].get("variant") == "Ok"]
            plain = [bb for bb in range(body.n) if not body.is_cleanup(bb) for st in body.blocks[bb]["stmts"]
                     if st["k"] == "assign" and st["pl"] == {"l": l2, "p": []} and not (st["rv"]["k"] == "aggregate" and st["rv"].get("variant") in ("Ok", "Err"))]
            calls_def = [c for c in body.calls() if c.dest and c.dest == {"l": l2, "p": []} and c.name not in
                         ("<std::result::Result<T, F> as std::ops::FromResidual<std::result::Result<std::convert::Infallible, E>>>::from_residual",)]
            if plain or calls_def or not all(body.must_pass(x, through_edges=edges, start=site.target) for x in oks):
                continue
            e2 = []
            for t in result_tests(body, l2):
                e2 += t.ok_edges()
            if e2 and body.must_pass(target_bb, through_edges=e2, start=site.target):
                return True, "ok (through a second Result)"
        return False, "a path from %s reaches the target over an Err edge / without testing the result" % site.name
    return True, "ok"


def field_stores(body, field, const=None, adt=None, include_cleanup=False):
    """Blocks/statements assigning to a place whose last field projection is `field` (optionally of the
    struct `adt`). Cleanup (unwind) blocks are skipped unless asked for."""
    out = []
    for b in range(body.n):
        if body.is_cleanup(b) and not include_cleanup:
            continue
        for i, st in enumerate(body.blocks[b]["stmts"]):
            if st["k"] != "assign":
                continue
            fs = [e for e in st["pl"]["p"] if isinstance(e, dict) and "f" in e]
            if fs and fs[-1]["n"] == field and (adt is None or fs[-1].get("a") == adt):
                if const is not None:
                    rv = st["rv"]
                    if not (rv["k"] == "use" and rv["ops"][0]["k"] == "const" and rv["ops"][0].get("val") == str(const)):
                        continue
                out.append((b, i, st))
    return out


def field_reads(body, field):
    """Blocks in which a place with a field projection named `field` is read (operand or ref)."""
    out = set()

    def has(pl):
        return any(isinstance(e, dict) and e.get("n") == field for e in pl["p"])

    for b in range(body.n):
        for st in body.blocks[b]["stmts"]:
            if st["k"] != "assign":
                continue
            rv = st["rv"]
            if rv["k"] in ("ref", "rawptr", "discr") and has(rv["pl"]):
                out.add(b)
            for o in rv.get("ops", []):
                if o["k"] in ("copy", "move") and has(o["pl"]):
                    out.add(b)
        t = body.term(b)
        if t["k"] == "call":
            for o in t["args"]:
                if o["k"] in ("copy", "move") and has(o["pl"]):
                    out.add(b)
        elif t["k"] == "switch" and t["discr"]["k"] in ("copy", "move") and has(t["discr"]["pl"]):
            out.add(b)
    return out


def in_cycle(body, bb):
    """bb lies on a normal-flow CFG cycle."""
    for s in body.succ(bb):
        if bb in body.reachable(s) or s == bb:
            return True
    return False


def return_value_consts(body, from_bb):
    """Constants assigned to _0 in blocks reachable from from_bb (set of val strings; 'nonconst' if other)."""
    vals = set()
    for b in body.reachable(from_bb):
        for st in body.blocks[b]["stmts"]:
            if st["k"] == "assign" and st["pl"]["l"] == 0 and not st["pl"]["p"]:
                rv = st["rv"]
                if rv["k"] == "use" and rv["ops"][0]["k"] == "const":
                    vals.add(rv["ops"][0].get("val"))
                else:
                    vals.add("nonconst")
    return vals


def arg_origin_has_field(body, op, field):
    for o in origins(body, op):
        if field in o.path or (o.kind == "upvar" and o.name == field):
            return True
    return False


# ---------------------------------------------------------------------------- comparisons
CMP_CALLS = {
    "std::cmp::PartialOrd::lt": "lt", "std::cmp::PartialOrd::le": "le",
    "std::cmp::PartialOrd::gt": "gt", "std::cmp::PartialOrd::ge": "ge",
    "std::cmp::impls::lt": "lt", "std::cmp::impls::le": "le",
    "std::cmp::impls::gt": "gt", "std::cmp::impls::ge": "ge",
    "std::cmp::PartialEq::eq": "eq", "std::cmp::PartialEq::ne": "ne",
    "std::cmp::impls::eq": "eq", "std::cmp::impls::ne": "ne",
    "std::vec::partial_eq::eq": "eq", "std::vec::partial_eq::ne": "ne",
    "<std::option::Option<T> as std::cmp::PartialEq>::eq": "eq",
    "<std::string::String as std::cmp::PartialEq>::eq": "eq",
    "<std::io::ErrorKind as std::cmp::PartialEq>::eq": "eq",
    "<std::cmp::Ordering as std::cmp::PartialEq>::eq": "eq",
}
BINOPS = {"Lt": "lt", "Le": "le", "Gt": "gt", "Ge": "ge", "Eq": "eq", "Ne": "ne"}
NEG = {"lt": "ge", "le": "gt", "gt": "le", "ge": "lt", "eq": "ne", "ne": "eq"}
SWAP = {"lt": "gt", "le": "ge", "gt": "lt", "ge": "le", "eq": "eq", "ne": "ne"}


class Cmp:
    """A comparison feeding a switch: on `true_t` edges `lhs op rhs` holds, on `false_t` edges its negation."""
    def __init__(self, body, bb, op, lhs, rhs, true_t, false_t, line, how):
        self.body = body
        self.bb = bb          # switch block
        self.op = op
        self.lhs = lhs        # operand
        self.rhs = rhs
        self.true_t = true_t
        self.false_t = false_t
        self.line = line
        self.how = how

    def lhs_origins(self):
        return origins(self.body, self.lhs)

    def rhs_origins(self):
        return origins(self.body, self.rhs)

    def edges_where(self, rel, a_pred, b_pred, exact=False):
        """Edges (bb, target) on which `A rel B` is known to hold, where A/B are identified by predicates
        over origin lists. Returns [] if this comparison does not relate A and B. With exact=True the edge's
        relation must be exactly `rel` (so that the complementary edge is exactly its negation): `>` does not
        count as `>=`."""
        lo, ro = self.lhs_origins(), self.rhs_origins()
        if a_pred(lo) and b_pred(ro):
            op = self.op
        elif a_pred(ro) and b_pred(lo):
            op = SWAP[self.op]
        else:
            return []
        out = []
        ok = (lambda o: o == rel) if exact else (lambda o: implies(o, rel))
        if ok(op):
            out += [(self.bb, t) for t in self.true_t]
        if ok(NEG[op]):
            out += [(self.bb, t) for t in self.false_t]
        return out

    def __repr__(self):
        return "<cmp %s L%s bb%d true->%s false->%s>" % (self.op, self.line, self.bb, self.true_t, self.false_t)


def implies(op, rel):
    """does `a op b` imply `a rel b`?"""
    if op == rel:
        return True
    table = {("lt", "le"), ("lt", "ne"), ("gt", "ge"), ("gt", "ne"), ("eq", "le"), ("eq", "ge")}
    return (op, rel) in table


def comparisons(body):
    """All comparisons that directly steer a switch in this body."""
    out = []
    for b in range(body.n):
        for st in body.blocks[b]["stmts"]:
            if st["k"] == "assign" and st["rv"]["k"] == "binop" and st["rv"]["op"] in BINOPS and not st["pl"]["p"]:
                for (sb, tr, fl) in _bool_switches(body, st["pl"]["l"]):
                    out.append(Cmp(body, sb, BINOPS[st["rv"]["op"]], st["rv"]["ops"][0], st["rv"]["ops"][1], tr, fl, st["line"], "binop"))
        t = body.term(b)
        if t["k"] == "call" and len(t["args"]) == 2 and not t["dest"]["p"]:
            nm = strip_generics(t.get("resolved") or t.get("callee"))
            dn = strip_generics(t.get("callee"))
            op = CMP_CALLS.get(nm) or CMP_CALLS.get(dn)
            if op is None and nm and nm.endswith("::eq") and "PartialEq" in (dn or ""):
                op = "eq"
            if op is None and nm and nm.endswith("::ne") and "PartialEq" in (dn or ""):
                op = "ne"
            if op is None and dn and dn.startswith("std::cmp::PartialOrd::"):
                op = {"lt": "lt", "le": "le", "gt": "gt", "ge": "ge"}.get(dn.rsplit("::", 1)[1])
            if op:
                for (sb, tr, fl) in _bool_switches(body, t["dest"]["l"]):
                    out.append(Cmp(body, sb, op, t["args"][0], t["args"][1], tr, fl, t["line"], nm))
    return out


def origin_pred_call(*names):
    ns = set(names)
    return lambda os: any(o.kind == "call" and o.name in ns for o in os)


def origin_pred_field(*fields):
    fs = set(fields)
    return lambda os: any((set(o.path) & fs) or (o.kind == "upvar" and o.name in fs) for o in os)


def origin_pred_any(*preds):
    return lambda os: any(p(os) for p in preds)


def stored_variants(body, st):
    """Enum variant names (Some/None/Ok/Err/...) of the value assigned by statement st (through temps)."""
    rv = st["rv"]
    if rv["k"] == "aggregate":
        return {rv.get("variant")}
    if rv["k"] == "use":
        return {o.name.rsplit("::", 1)[-1] for o in origins(body, rv["ops"][0]) if o.kind == "agg"}
    return set()
