"""Fact generation and caching.

Facts are regenerated whenever the hash of /repo's *current working tree* (src, Cargo.toml,
Cargo.lock), the feature set or the factgen binary changes.  Nothing in /repo is executed: the
driver runs under `cargo +nightly check` with a fresh scratch target directory that is removed
when the run ends.
"""
import fcntl
import hashlib
import gzip
import json
import os
import shutil
import subprocess
import tempfile
import time

VERIF = os.path.dirname(os.path.dirname(os.path.dirname(os.path.abspath(__file__))))
REPO = os.environ.get("RDB_REPO", "/repo")
FACTGEN_DIR = os.path.join(VERIF, "engine", "factgen")
FACTGEN_BIN = os.path.join(FACTGEN_DIR, "target", "release", "factgen")
CACHE = os.path.join(VERIF, ".cache")


class FactsError(Exception):
    pass


def _sha_file(h, path):
    with open(path, "rb") as f:
        while True:
            b = f.read(1 << 20)
            if not b:
                break
            h.update(b)


def tree_hash(repo=None, features=()):
    repo = repo or REPO
    h = hashlib.sha256()
    h.update(("features=" + ",".join(sorted(features)) + "\n").encode())
    for name in ("Cargo.toml", "Cargo.lock"):
        p = os.path.join(repo, name)
        if os.path.exists(p):
            h.update(name.encode())
            _sha_file(h, p)
    src = os.path.join(repo, "src")
    files = []
    for root, dirs, fs in os.walk(src):
        dirs.sort()
        for f in sorted(fs):
            files.append(os.path.join(root, f))
    for p in sorted(files):
        h.update(os.path.relpath(p, repo).encode())
        _sha_file(h, p)
    if os.path.exists(FACTGEN_BIN):
        h.update(b"factgen-bin")
        _sha_file(h, FACTGEN_BIN)
    else:
        h.update(b"factgen-missing")
    return h.hexdigest()[:24]


def build_factgen():
    env = dict(os.environ)
    env["CARGO_NET_OFFLINE"] = "true"
    r = subprocess.run(
        ["cargo", "build", "--release", "--offline"],
        cwd=FACTGEN_DIR, env=env, stdout=subprocess.PIPE, stderr=subprocess.STDOUT, text=True)
    if r.returncode != 0 or not os.path.exists(FACTGEN_BIN):
        raise FactsError("factgen build failed:\n" + r.stdout[-4000:])


def _nightly_sysroot():
    r = subprocess.run(["rustc", "+nightly", "--print", "sysroot"], stdout=subprocess.PIPE, text=True)
    if r.returncode != 0:
        raise FactsError("nightly toolchain not available")
    return r.stdout.strip()


def generate(repo, out_path, features=()):
    """Run the driver over `repo` and write facts to out_path. Raises FactsError on failure."""
    if not os.path.exists(FACTGEN_BIN):
        build_factgen()
    scratch = tempfile.mkdtemp(prefix="rdbfacts.")
    try:
        env = dict(os.environ)
        env["CARGO_NET_OFFLINE"] = "true"
        env["LD_LIBRARY_PATH"] = os.path.join(_nightly_sysroot(), "lib") + ":" + env.get("LD_LIBRARY_PATH", "")
        env["RUSTFLAGS"] = "-Zmir-opt-level=0 -Awarnings"
        env["RUSTC_WORKSPACE_WRAPPER"] = FACTGEN_BIN
        env["CARGO_TARGET_DIR"] = os.path.join(scratch, "target")
        env["FACTGEN_OUT"] = out_path + ".tmp"
        env["FACTGEN_CRATE"] = "raindb"
        env.pop("RUSTC_WRAPPER", None)
        cmd = ["cargo", "+nightly", "check", "--offline", "--lib", "-p", "raindb"]
        if features:
            cmd += ["--features", ",".join(features)]
        r = subprocess.run(cmd, cwd=repo, env=env, stdout=subprocess.PIPE, stderr=subprocess.STDOUT, text=True)
        if r.returncode != 0:
            raise FactsError("cargo check of %s failed (the tree does not compile?):\n%s" % (repo, r.stdout[-6000:]))
        if not os.path.exists(out_path + ".tmp"):
            raise FactsError("driver did not see the raindb lib crate (no fact file written)\n" + r.stdout[-2000:])
        os.replace(out_path + ".tmp", out_path)
    finally:
        shutil.rmtree(scratch, ignore_errors=True)


def load(repo=None, features=(), use_cache=True):
    """Return (facts dict, meta dict). Regenerates when the tree hash changed."""
    repo = repo or REPO
    os.makedirs(CACHE, exist_ok=True)
    t0 = time.time()
    hsh = tree_hash(repo, features)
    raw = os.path.join(CACHE, "facts-%s.json" % hsh)
    path = raw + ".gz"          # the cache keeps the fact files compressed (10 MB -> under 1 MB each)
    lock_path = os.path.join(CACHE, "lock-%s" % hsh)
    generated = False
    with open(lock_path, "w") as lk:
        fcntl.flock(lk, fcntl.LOCK_EX)
        try:
            if not (use_cache and os.path.exists(path)):
                generate(repo, raw, features)
                with open(raw, "rb") as fi, gzip.open(path + ".tmp", "wb", compresslevel=1) as fo:
                    shutil.copyfileobj(fi, fo)
                os.replace(path + ".tmp", path)
                os.remove(raw)
                generated = True
                _prune_cache(keep=path)
        finally:
            fcntl.flock(lk, fcntl.LOCK_UN)
    with gzip.open(path, "rt") as f:
        facts = json.load(f)
    if facts.get("crate") != "raindb" or facts.get("n_bodies", 0) < 100:
        raise FactsError("fact file implausible: crate=%r bodies=%r" % (facts.get("crate"), facts.get("n_bodies")))
    meta = {"tree_hash": hsh, "facts_path": path, "generated": generated,
            "facts_wall_s": round(time.time() - t0, 2), "features": list(features), "repo": repo}
    return facts, meta


def _prune_cache(keep, max_files=600):
    try:
        for f in os.listdir(CACHE):          # uncompressed files of earlier versions of this cache
            if f.startswith("facts-") and (f.endswith(".json") or f.endswith(".json.tmp")):
                try:
                    # another process may be writing / compressing such a file right now: only stale ones go
                    if time.time() - os.path.getmtime(os.path.join(CACHE, f)) > 900:
                        os.remove(os.path.join(CACHE, f))
                except OSError:
                    pass
        fs = [os.path.join(CACHE, f) for f in os.listdir(CACHE) if f.startswith("facts-") and f.endswith(".json.gz")]
        fs.sort(key=lambda p: os.path.getmtime(p))
        for p in fs[:-max_files]:
            if p != keep:
                os.remove(p)
                lp = p.replace("facts-", "lock-").replace(".json.gz", "")
                if os.path.exists(lp):
                    os.remove(lp)
    except OSError:
        pass
