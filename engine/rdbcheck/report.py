"""Result collection, known-finding handling, evidence writing."""
import json
import os
import re
import time

VERIF = os.path.dirname(os.path.dirname(os.path.dirname(os.path.abspath(__file__))))


def safe_name(key):
    import hashlib
    return re.sub(r"[^A-Za-z0-9_.-]+", "_", key)[:110] + "-" + hashlib.sha1(key.encode()).hexdigest()[:8]


class Instance:
    def __init__(self, rule, key, ok, where, required, found, nontrivial=True, detail=None):
        self.rule = rule
        self.key = key
        self.ok = ok
        self.where = where
        self.required = required
        self.found = found
        self.nontrivial = nontrivial
        self.detail = detail

    def to_json(self):
        d = {"rule": self.rule, "key": self.key, "holds": self.ok, "where": self.where,
             "required": self.required, "found": self.found}
        if self.detail:
            d["detail"] = self.detail
        return d


class Report:
    def __init__(self, prop_id, tier="quick"):
        self.prop = prop_id
        self.tier = tier
        self.instances = []
        self.clauses = []   # (rule id, text)
        self.assumptions = []
        self.not_decided = []
        self.functions = set()
        self.call_sites = 0
        self.paths = 0
        self.allow_used = []
        self.extra = {}
        self.t0 = time.time()

    # -- recording
    def clause(self, rule, text):
        self.clauses.append((rule, text))

    def analysed(self, *bodies):
        for b in bodies:
            if b is not None:
                self.functions.add(b if isinstance(b, str) else b.path)

    def check(self, rule, key, ok, where, required, found, nontrivial=True, detail=None):
        """Record a rule instance. key identifies the construct WITHOUT line numbers."""
        full = "%s|%s" % (rule, key)
        # rule bundles overlap with the rules a property's module runs itself: an identical instance is recorded once
        seen = self.__dict__.setdefault("_seen_instances", set())
        sig = (full, bool(ok), where, str(found))
        if sig in seen:
            return bool(ok)
        seen.add(sig)
        self.instances.append(Instance(rule, full, bool(ok), where, required, found, nontrivial, detail))
        return bool(ok)

    def once(self, fn, *args, **kw):
        """run a rule function at most once per report (rule bundles overlap)"""
        done = self.__dict__.setdefault("_once", set())
        key = (getattr(fn, "__module__", ""), getattr(fn, "__name__", repr(fn)), repr(sorted(kw.items())), repr(args[3:]))
        if key in done:
            return
        done.add(key)
        fn(*args, **kw)

    def missing_anchor(self, rule, what):
        self.check(rule, "anchor-missing|%s" % what, False, "-", "anchor `%s` exists in the lib crate" % what,
                   "not found: the rule cannot be evaluated (fail closed)")

    def floor(self, rule, what, count, minimum):
        self.check(rule, "instance-floor|%s" % what, count >= minimum, "-",
                   "at least %d %s (hand-counted on the reviewed tree)" % (minimum, what),
                   "%d found" % count, nontrivial=False)

    def allow(self, key, reason):
        self.allow_used.append({"key": key, "reason": reason})

    # -- finishing
    def finish(self, known_findings, seed=0, write_replay=True):
        known = {}
        fixed = {}
        for kf in known_findings:
            if kf.get("property") != self.prop and self.prop not in kf.get("also", []):
                continue
            if kf.get("status") == "known":
                known[kf["key"]] = kf
            elif kf.get("status") == "fixed":
                fixed[kf["key"]] = kf
        lines = []
        violations = []
        known_hits = []
        replay_dir = os.path.join(VERIF, "evidence", "replay", self.prop)
        for inst in self.instances:
            if inst.ok:
                continue
            if inst.key in known:
                known_hits.append(inst)
                lines.append("KNOWN-FINDING: property=%s %s — %s [%s]" % (
                    self.prop, inst.key, known[inst.key].get("what", inst.found), inst.where))
                continue
            violations.append(inst)
        if violations and write_replay:
            os.makedirs(replay_dir, exist_ok=True)
        for inst in violations:
            rp = os.path.join(replay_dir, safe_name(inst.key) + ".json")
            if write_replay:
                with open(rp, "w") as f:
                    json.dump({"property": self.prop, **inst.to_json()}, f, indent=1)
            lines.append("%s: rule %s violated\n    instance: %s\n    required: %s\n    found:    %s%s" % (
                inst.where, inst.rule, inst.key, inst.required, inst.found,
                ("\n    detail:   %s" % inst.detail) if inst.detail else ""))
            lines.append("VIOLATION property=%s replay=%s" % (self.prop, rp))
        wall = round(time.time() - self.t0, 2)
        n_eval = len(self.instances)
        distinct = len({i.key for i in self.instances if i.nontrivial})
        samples = [i.to_json() for i in self.instances[:60]]
        for i in self.instances:
            if not i.ok and i.to_json() not in samples:
                samples.append(i.to_json())
        explanation = (
            "Static analysis of rustc MIR facts of the raindb lib crate (no execution). Decides these "
            "structural clauses of %s, each a necessary condition of the behaviour, NOT the behaviour itself: " % self.prop
            + " ".join("[%s] %s" % (r, t) for r, t in self.clauses)
            + (" Not decided: " + "; ".join(self.not_decided) if self.not_decided else ""))
        ev = {
            "property_id": self.prop,
            "tier": self.tier,
            "seed": int(seed),
            "level": "other",
            "coverage": {
                "explanation": explanation,
                "evaluations": n_eval,
                "distinct_nontrivial": distinct,
                "rule": "one evaluation = one rule instance (rule x resolved construct: function, call site, "
                        "assignment or path set) enumerated exhaustively over the lib crate's MIR; non-trivial = "
                        "the instance examined at least one site/path (floors and anchor checks are trivial)",
                "samples": samples,
                "exhaustive": True,
                "functions_analysed": sorted(self.functions),
                "n_functions_analysed": len(self.functions),
                "call_sites_examined": self.call_sites,
                "paths_explored": self.paths,
                "allow_table_used": self.allow_used,
                "known_findings": [i.key for i in known_hits],
                "violating_instances": [i.key for i in violations],
                "rules": [{"id": r, "text": t} for r, t in self.clauses],
                **self.extra,
            },
            "assumptions": self.assumptions,
            "wall_s": wall,
            "violations": len(violations),
        }
        return ev, lines, (1 if violations else 0)


def load_known_findings():
    p = os.path.join(VERIF, "known_findings.json")
    if not os.path.exists(p):
        return []
    with open(p) as f:
        return json.load(f).get("findings", [])


def write_evidence(prop, ev):
    d = os.path.join(VERIF, "evidence")
    os.makedirs(d, exist_ok=True)
    p = os.path.join(d, "%s.json" % prop)
    tmp = p + ".tmp"
    with open(tmp, "w") as f:
        json.dump(ev, f, indent=1)
    os.replace(tmp, p)
    return p
