"""Inlining of functions the rules have never seen.

Every rule is anchored on functions of the reviewed tree (`known_functions.txt`, one def path per line, regenerated with
`python3 -m rdbcheck.inline --freeze` after a review). A behaviour-preserving edit that moves part of an anchored
function into a new private helper would hide that part from path rules (dominance, must-pass, pairing); following
helpers rule by rule does not scale. Instead a call to a local, statically resolved function that is NOT on the list is
replaced by the callee's blocks before any rule runs (bottom-up, so helpers of helpers come along). Functions on the
list are never inlined: rules name them as call sites. On the reviewed tree nothing is inlined at all.

The transformation is on the JSON facts: callee locals and blocks are appended with an offset, parameters are assigned
from the call's arguments at the callee's entry, `return` becomes `dest = move _0'; goto <call target>`. The callee's
unwind blocks stay cleanup blocks. The standalone body of the helper is kept (per-function rules such as ERR-1 still
see it)."""
import copy
import os
import re
import sys

HERE = os.path.dirname(os.path.abspath(__file__))
KNOWN_FILE = os.path.join(HERE, "known_functions.txt")
MAX_CALLEE_BLOCKS = 400
MAX_ROUNDS = 4


def load_known():
    if not os.path.exists(KNOWN_FILE):
        return None
    with open(KNOWN_FILE) as f:
        return {l.rstrip("\n") for l in f if l.strip() and not l.startswith("#")}


def _remap_place(pl, off):
    pl["l"] += off
    for e in pl["p"]:
        if isinstance(e, dict) and isinstance(e.get("idx"), int):
            e["idx"] += off


def _remap_operand(op, off):
    if isinstance(op, dict) and "pl" in op and isinstance(op["pl"], dict):
        _remap_place(op["pl"], off)


def _remap_block(blk, loff, boff):
    for st in blk["stmts"]:
        _remap_place(st["pl"], loff)
        rv = st["rv"]
        if isinstance(rv.get("pl"), dict):
            _remap_place(rv["pl"], loff)
        for op in rv.get("ops") or []:
            _remap_operand(op, loff)
    t = blk["term"]
    for k in ("dest", "pl"):
        if isinstance(t.get(k), dict) and "l" in t[k]:
            _remap_place(t[k], loff)
    for k in ("discr", "cond"):
        if isinstance(t.get(k), dict):
            _remap_operand(t[k], loff)
    for a in t.get("args") or []:
        _remap_operand(a, loff)
    for k in ("target", "unwind", "otherwise"):
        if isinstance(t.get(k), int):
            t[k] += boff
    if t.get("targets"):
        t["targets"] = [[v, tg + boff] for v, tg in t["targets"]]


def _rename_local(blk, old, new):
    def pl(p):
        if p["l"] == old:
            p["l"] = new
        for e in p["p"]:
            if isinstance(e, dict) and e.get("idx") == old:
                e["idx"] = new

    def op(o):
        if isinstance(o, dict) and isinstance(o.get("pl"), dict):
            pl(o["pl"])
    for st in blk["stmts"]:
        pl(st["pl"])
        if isinstance(st["rv"].get("pl"), dict):
            pl(st["rv"]["pl"])
        for o in st["rv"].get("ops") or []:
            op(o)
    t = blk["term"]
    for k in ("dest", "pl"):
        if isinstance(t.get(k), dict) and "l" in t[k]:
            pl(t[k])
    for k in ("discr", "cond"):
        if isinstance(t.get(k), dict):
            op(t[k])
    for a in t.get("args") or []:
        op(a)


def _inline_site(caller, bi, callee):
    """Replace the call terminating block `bi` of `caller` by the blocks of `callee` (both raw records)."""
    call = caller["blocks"][bi]["term"]
    loff = len(caller["locals"])
    boff = len(caller["blocks"])
    caller["locals"].extend(copy.deepcopy(callee["locals"]))
    new_blocks = copy.deepcopy(callee["blocks"])
    line = call.get("line")
    # promoted constants are looked up by index in the body that mentions them: renumber behind the caller's own
    poff = len(caller.setdefault("promoted", []))
    caller["promoted"].extend(copy.deepcopy(callee.get("promoted") or []))

    def fix_const(op):
        if isinstance(op, dict) and op.get("k") == "const" and "::promoted[" in (op.get("text") or ""):
            op["text"] = re.sub(r"promoted\[(\d+)\]", lambda m: "promoted[%d]" % (int(m.group(1)) + poff), op["text"])
    # the callee's return place becomes the call's destination itself when that is a plain local (`dest = Ok(x)` instead
    # of `_0' = Ok(x); dest = move _0'`): rules that look for what is assigned to a Result keep seeing the aggregate
    dest = call.get("dest")
    direct = dest is not None and not dest["p"]
    for blk in new_blocks:
        _remap_block(blk, loff, boff)
        if direct:
            _rename_local(blk, loff, dest["l"])
        for st in blk["stmts"]:
            for op in st["rv"].get("ops") or []:
                fix_const(op)
        for a in blk["term"].get("args") or []:
            fix_const(a)
    # parameters
    entry = new_blocks[0]
    pre = []
    actuals = list(call.get("args") or [])
    if callee.get("kind") == "closure" and len(actuals) == 2 and actuals[1].get("k") in ("copy", "move"):
        # `Fn::call(&closure, (a, b))`: the closure's body takes the tuple's elements as its parameters 2, 3, ..
        tup = actuals[1]["pl"]
        actuals = [actuals[0]] + [{"k": "move", "pl": {"l": tup["l"], "p": list(tup["p"]) + [{"f": i, "n": "", "t": "", "a": ""}]}}
                                  for i in range(callee["args"] - 1)]
    for k, a in enumerate(actuals):
        if k + 1 > callee["args"]:
            break
        pre.append({"k": "assign", "line": line, "exp": False, "pl": {"l": loff + k + 1, "p": []}, "rv": {"k": "use", "ops": [copy.deepcopy(a)]}})
    entry["stmts"] = pre + entry["stmts"]
    # stores through a parameter (`(*_p).field = v`) do not redefine the parameter: dataflow treats these locals like
    # parameters (origins.py stops at a parameter without looking at sub-place assignments)
    caller.setdefault("inlined_params", []).extend(loff + k + 1 for k in range(len(pre)))
    # returns
    for blk in new_blocks:
        t = blk["term"]
        if t["k"] == "return":
            if call.get("dest") is not None and not direct:
                blk["stmts"].append({"k": "assign", "line": line, "exp": False, "pl": copy.deepcopy(call["dest"]),
                                     "rv": {"k": "use", "ops": [{"k": "move", "pl": {"l": loff, "p": []}}]}})
            if call.get("target") is not None:
                blk["term"] = {"k": "goto", "line": t.get("line"), "exp": False, "target": call["target"]}
            else:
                blk["term"] = {"k": "unreachable", "line": t.get("line"), "exp": False}
    caller["blocks"].extend(new_blocks)
    caller["blocks"][bi]["term"] = {"k": "goto", "line": line, "exp": False, "target": boff}


CLOSURE_CALLS = ("std::ops::Fn::call", "std::ops::FnMut::call_mut", "std::ops::FnOnce::call_once")


def _called_closures(bodies):
    """closures that some body calls DIRECTLY (`let reached = |t| n >= t; .. reached(LIMIT)`): local helper closures.  A closure that
    is only handed to somebody else (unlocked_fair, thread::spawn, a combinator) is not called by a body of this crate."""
    out = set()
    for rec in bodies.values():
        for blk in rec["blocks"]:
            t = blk["term"]
            if t["k"] == "call" and t.get("local") and not t.get("dyn") and (t.get("callee") or "").split("<")[0] in CLOSURE_CALLS and \
                    "{closure" in (t.get("resolved") or "") and len(t.get("args") or []) == 2:
                out.add(t["resolved"])
    return out


def _candidates(bodies, known):
    direct = _called_closures(bodies)
    # (the reviewed tree calls no closure directly, and closure numbers shift when one is added: the known list says nothing
    # about a closure - being called directly is the criterion)
    return {p for p, r in bodies.items()
            if "{constant" not in p and len(r["blocks"]) <= MAX_CALLEE_BLOCKS and
            ((p not in known and r.get("kind") in ("fn", "assoc_fn") and "{closure" not in p) or (r.get("kind") == "closure" and p in direct))}


def apply(facts, known=None):
    """Inline unknown local functions into their callers, in place. Returns [(callee, caller, line)]; the unmodified
    records of the callers are kept in facts["bodies_before_inlining"] for per-function rules."""
    known = load_known() if known is None else known
    done = []
    if known is None:
        return done
    bodies = facts["bodies"]
    cand = _candidates(bodies, known)
    if not cand:
        return done

    def calls_of(rec):
        out = []
        for bi, blk in enumerate(rec["blocks"]):
            t = blk["term"]
            if t["k"] == "call" and t.get("local") and not t.get("dyn") and t.get("resolved") in cand:
                out.append((bi, t["resolved"]))
        return out

    # recursion among the candidates: leave those alone
    def reaches_itself(p):
        seen, st = set(), [p]
        while st:
            x = st.pop()
            for _, c in calls_of(bodies[x]):
                if c == p:
                    return True
                if c not in seen:
                    seen.add(c)
                    st.append(c)
        return False

    cand = {p for p in cand if not reaches_itself(p)}
    for _ in range(MAX_ROUNDS):
        # bottom-up: first the candidates that call no other candidate
        changed = False
        order = sorted(bodies, key=lambda p: (p not in cand, p))
        for p in order:
            rec = bodies[p]
            sites = [(bi, c) for bi, c in calls_of(rec) if c != p and not calls_of(bodies[c])]
            if not sites:
                continue
            if blocks_cleanup_only(rec, sites):
                continue
            for bi, c in sites:
                if rec["blocks"][bi]["cleanup"]:
                    continue
                facts.setdefault("bodies_before_inlining", {}).setdefault(p, copy.deepcopy(rec))
                _inline_site(rec, bi, bodies[c])
                done.append((c, p, rec["blocks"][bi]["term"].get("line")))
                changed = True
        if not changed:
            break
    _absorb(facts, {c for (c, _, _) in done}, {c: p for (c, p, _) in reversed(done)})
    return done


def _absorb(facts, inlined, into):
    """A helper whose every use was inlined has no behaviour of its own left: it is taken out of the analysed bodies (its
    statements are attributed to the functions it was written for — what who-may-call rules want) and kept only in the
    function-at-a-time view. A helper that is still called somewhere (cleanup block, recursion) or mentioned as a
    function value stays."""
    bodies = facts["bodies"]
    absorbed = facts.setdefault("bodies_absorbed", {})
    changed = True
    while changed:
        changed = False
        for h in sorted(inlined):
            if h not in bodies:
                continue
            used = False
            for p, rec in bodies.items():
                if p == h:
                    continue
                for blk in rec["blocks"]:
                    t = blk["term"]
                    if t["k"] == "call" and (t.get("resolved") == h or t.get("callee") == h):
                        used = True
                    for op in (t.get("args") or []) + [o for st in blk["stmts"] for o in (st["rv"].get("ops") or [])]:
                        if isinstance(op, dict) and op.get("k") == "const" and op.get("fn") == h:
                            used = True
                    if used:
                        break
                if used:
                    break
            if not used:
                absorbed[h] = bodies.pop(h)
                # its closures are now constructed by the inlined copy of the aggregate statement in the caller
                host = into.get(h)
                while host in absorbed and into.get(host):
                    host = into[host]
                for p, rec in bodies.items():
                    if rec.get("kind") == "closure":
                        if rec.get("direct_parent") == h:
                            rec["direct_parent"] = host
                        if rec.get("parent") == h:
                            rec["parent"] = host
                changed = True


def blocks_cleanup_only(rec, sites):
    return all(rec["blocks"][bi]["cleanup"] for bi, _ in sites)


def freeze(repo=None):
    from . import facts as F
    f, _ = F.load(repo=repo)
    names = sorted(p for p in f["bodies"])
    with open(KNOWN_FILE, "w") as out:
        out.write("# def paths of every MIR body of the reviewed tree (see inline.py); regenerate after a review with\n"
                  "# `cd /verif/engine && python3 -m rdbcheck.inline --freeze`\n")
        for n in names:
            out.write(n + "\n")
    return len(names)


if __name__ == "__main__":
    if "--freeze" in sys.argv:
        print("froze %d functions" % freeze())
