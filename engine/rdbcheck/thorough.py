"""Thorough tier: quick rules on the default configuration plus the `strict` feature configuration,
plus the checker self-validation matrix (selftest mutants applied to a scratch copy of the current tree)."""
import json
import os
import time

from . import report


def run(prop, seed, run_prop):
    t0 = time.time()
    rc, ev = run_prop(prop, "thorough", seed)
    if ev is None:
        return rc
    rc2, ev2 = run_prop(prop, "thorough", seed, features=("strict",), quiet=True, write=False)
    strict = {"violations": None if ev2 is None else ev2["violations"],
              "evaluations": None if ev2 is None else ev2["coverage"]["evaluations"]}
    if ev2 is not None and ev2["violations"]:
        print("strict-feature configuration: %d violation(s): %s" % (ev2["violations"], ev2["coverage"]["violating_instances"]))
        rc = rc or rc2
    ev["coverage"]["strict_feature_configuration"] = strict
    try:
        from . import selftest
        matrix = selftest.run_matrix(prop, run_prop)
    except Exception as e:  # self-validation problems are checker weaknesses, never property violations
        matrix = {"error": repr(e)}
    ev["coverage"]["selftest_matrix"] = matrix
    for m in matrix.get("mutants", []) if isinstance(matrix, dict) else []:
        if not m.get("killed"):
            print("CHECKER-WEAKNESS: property=%s mutant %s survived" % (prop, m.get("name")))
    ev["wall_s"] = round(time.time() - t0, 2)
    ev["violations"] = ev["violations"] + (ev2["violations"] if ev2 else 0)
    report.write_evidence(prop, ev)
    return rc
