"""ROLE / ACC engines: role colours of key bounds and direction of min/max accumulators."""
from .dataflow import origins, roots, TRANSPARENT
from .rules import comparisons, in_cycle
from .cfg import strip_generics

SMALL_CALLS = {"versioning::file_metadata::FileMetadata::smallest_key"}
LARGE_CALLS = {"versioning::file_metadata::FileMetadata::largest_key"}
SMALL_FIELDS = {"start", "smallest_key"}
LARGE_FIELDS = {"end", "largest_key"}

COLOUR_TRANSPARENT = TRANSPARENT | {
    "key::InternalKey::get_user_key", "std::option::Option::map", "std::option::Option::unwrap",
    "<key::InternalKey as std::clone::Clone>::clone", "std::option::Option::Some",
}


def colour_of_origins(os_):
    small = large = False
    for o in os_:
        if o.kind == "call" and o.name in SMALL_CALLS:
            small = True
        elif o.kind == "call" and o.name in LARGE_CALLS:
            large = True
        fs = set(o.path)
        if o.kind == "upvar":
            fs.add(o.name)
        if fs & SMALL_FIELDS:
            small = True
        if fs & LARGE_FIELDS:
            large = True
    if small and large:
        return "MIXED"
    if small:
        return "SMALL"
    if large:
        return "LARGE"
    return None


def colour(body, x):
    return colour_of_origins(origins(body, x, transparent=COLOUR_TRANSPARENT))


def def_colour(body, d):
    if d[0] == "stmt":
        rv = d[3]["rv"]
        if rv["k"] in ("use", "cast"):
            return colour(body, rv["ops"][0])
        if rv["k"] in ("ref",):
            return colour(body, rv["pl"])
        if rv["k"] == "aggregate" and rv.get("variant") == "Some" and len(rv["ops"]) == 1:
            return colour(body, rv["ops"][0])
        return None
    if d[0] == "call":
        t = d[3]
        nm = strip_generics(t.get("resolved") or t.get("callee"))
        if nm in SMALL_CALLS:
            return "SMALL"
        if nm in LARGE_CALLS:
            return "LARGE"
        if nm in COLOUR_TRANSPARENT and t["args"]:
            return colour(body, t["args"][0])
        return None
    return None


class Accumulator:
    def __init__(self, body, local, colour, loop_defs, init_defs):
        self.body = body
        self.local = local
        self.colour = colour
        self.loop_defs = loop_defs
        self.init_defs = init_defs


def find_accumulators(body):
    out = []
    for l, dl in body.defs().items():
        if l <= body.nargs or len(dl) < 2:
            continue
        dl = [d for d in dl if not body.is_cleanup(d[1])]
        if len(dl) < 2:
            continue
        cols = [def_colour(body, d) for d in dl]
        if any(c is None or c == "MIXED" for c in cols) or len(set(cols)) != 1:
            continue
        loop_defs = [d for d in dl if in_cycle(body, d[1])]
        init_defs = [d for d in dl if not in_cycle(body, d[1])]
        if not loop_defs:
            continue
        # the local itself must be compared against a candidate somewhere (it is an accumulator, not a cursor)
        out.append(Accumulator(body, l, cols[0], loop_defs, init_defs))
    return out


def accumulator_guard(body, acc):
    """For each loop def: (def, ok, found_rel, line). ok iff the def is reachable only over an edge on which
    `candidate REL acc` holds with REL = gt/ge for LARGE, lt/le for SMALL."""
    want = "gt" if acc.colour == "LARGE" else "lt"
    wrong = "lt" if acc.colour == "LARGE" else "gt"
    cmps = comparisons(body)

    def is_acc(op):
        return acc.local in roots(body, op, extra=COLOUR_TRANSPARENT)

    res = []
    for d in acc.loop_defs:
        good_edges, bad_edges = [], []
        seen_cmp = None
        for c in cmps:
            la, ra = is_acc(c.lhs), is_acc(c.rhs)
            if la == ra:
                continue
            cand = c.rhs if la else c.lhs
            if colour(body, cand) != acc.colour:
                continue
            a_pred = lambda os_, _c=acc.colour: colour_of_origins(os_) == _c
            # orient as cand REL acc
            from .rules import SWAP, NEG, implies
            op = c.op if ra else SWAP[c.op]   # cand op acc
            for (edges, rel) in (([(c.bb, t) for t in c.true_t], op), ([(c.bb, t) for t in c.false_t], NEG[op])):
                if implies(rel, "ge" if want == "gt" else "le") and rel != "eq":
                    good_edges += edges
                if implies(rel, "le" if want == "gt" else "ge") and rel != "eq":
                    bad_edges += edges
            seen_cmp = c
        ok = bool(good_edges) and body.must_pass(d[1], through_edges=good_edges)
        inverted = bool(bad_edges) and body.must_pass(d[1], through_edges=bad_edges)
        res.append((d, ok, "inverted (%s)" % wrong if inverted else ("guarded (%s)" % want if ok else "unguarded"), seen_cmp.line if seen_cmp else None))
    return res
