"""DB-mutex region analysis (engine LCK).

The DB mutex is `parking_lot::Mutex<db::GuardedDbFields>` (one instance per database).  A body's
sites are classified HELD / UNLOCKED / UNKNOWN:

* bodies with a parameter `&mut MutexGuard<GuardedDbFields>` (or `&MutexGuard`) are HELD everywhere;
* bodies that call `Mutex<GuardedDbFields>::lock` own a guard: forward flag-sensitive dataflow, gen at
  the lock's return edge, kill at `drop(guard)` / a by-value move of the guard into a call
  (`unlock_fair`, `mem::drop`);
* closures passed to `MutexGuard::unlocked_fair`, `thread::Builder::spawn`, or stored as boxed
  callbacks are UNLOCKED contexts (plus whatever guards they take themselves);
* other closures inherit the state of the site they are passed to;
* everything else is UNKNOWN (context dependent) and is handled through call-graph summaries.
"""
from .cfg import strip_generics, ExploreCap

DB_FIELDS = "db::GuardedDbFields"
LOCK = "parking_lot::lock_api::Mutex::lock"
UNLOCKED_FAIR = "parking_lot::lock_api::MutexGuard::unlocked_fair"
UNLOCK_FAIR = "parking_lot::lock_api::MutexGuard::unlock_fair"
WAIT = "parking_lot::Condvar::wait"
SPAWN = {"std::thread::Builder::spawn", "std::thread::spawn"}
DETACHED_CONSUMERS = SPAWN | {"versioning::file_iterators::MergingIterator::register_cleanup_method",
                              "std::boxed::Box::new"}


def is_db_lock(cs):
    return cs.name == LOCK and DB_FIELDS in (cs.t.get("substs") or [])


def is_db_guard_ty(ty):
    return "MutexGuard<" in ty and DB_FIELDS in ty


UNLOCKED_NAMES = {UNLOCKED_FAIR, "parking_lot::lock_api::MutexGuard::unlocked"}
BUMP = "parking_lot::lock_api::MutexGuard::bump"


def is_unlocked_fair(cs):
    """a call that runs its closure argument with the DB mutex released (unlocked_fair / unlocked)"""
    return cs.name in UNLOCKED_NAMES and DB_FIELDS in (cs.t.get("substs") or [])


def is_wait(cs):
    return cs.name in (WAIT, "parking_lot::Condvar::wait_for", "parking_lot::Condvar::wait_until", "parking_lot::Condvar::wait_while")


def is_release_point(cs):
    """A call during which the DB mutex is (temporarily or finally) released."""
    return is_unlocked_fair(cs) or is_wait(cs) or cs.name in (UNLOCK_FAIR, "parking_lot::lock_api::MutexGuard::unlock", BUMP) \
        or cs.name in ("parking_lot::Condvar::wait_for", "parking_lot::Condvar::wait_until", "parking_lot::Condvar::wait_while")


class LockInfo:
    def __init__(self, prog):
        self.prog = prog
        self._held = {}
        self._ctx = {}
        self._maylock = None
        self.paths = 0

    def guard_param(self, body):
        for i in range(1, body.nargs + 1):
            ty = body.locals[i]["ty"]
            if is_db_guard_ty(ty):
                return i
        return None

    def own_guards(self, body):
        out = []
        for cs in body.calls():
            if is_db_lock(cs) and not cs.dest["p"]:
                out.append(cs.dest["l"])
        return sorted(set(out))

    def closure_context(self, body):
        """For a closure body: ('unlocked', site) | ('detached', site) | ('inherit', site) | ('unknown', None)"""
        if body.path in self._ctx:
            return self._ctx[body.path]
        res = ("unknown", None)
        parent = self.prog.bodies.get(body.direct_parent) or self.prog.bodies.get(body.parent)
        cands = [parent] if parent else []
        # the closure may be constructed in the direct parent (which itself may be a closure)
        for pb in cands:
            for cs in pb.calls():
                if body.path in cs.closure_args():
                    if is_unlocked_fair(cs):
                        res = ("unlocked", cs)
                    elif cs.name in DETACHED_CONSUMERS:
                        res = ("detached", cs)
                    else:
                        res = ("inherit", cs)
                    break
        self._ctx[body.path] = res
        return res

    def held_map(self, body):
        """bb -> (may_held, must_held) at the block's terminator, for guards owned by this body or a
        guard parameter. For closures the inherited state is added by `site_state`."""
        if body.path in self._held:
            return self._held[body.path]
        n = body.n
        if self.guard_param(body) is not None:
            m = {b: (True, True) for b in range(n)}
            self._held[body.path] = m
            return m
        guards = self.own_guards(body)
        if not guards:
            m = {b: (False, False) for b in range(n)}
            self._held[body.path] = m
            return m
        gset = set(guards)

        def transfer(bb, us, phase, data):
            if phase == "stmts":
                # a plain move `_x = move _g` renames the guard
                cur = set(us)
                for st in data["stmts"]:
                    if st["k"] == "assign" and st["rv"]["k"] == "use":
                        op = st["rv"]["ops"][0]
                        if op["k"] == "move" and not op["pl"]["p"] and op["pl"]["l"] in cur and not st["pl"]["p"]:
                            cur.discard(op["pl"]["l"])
                            cur.add(st["pl"]["l"])
                return frozenset(cur)
            lab, tg = data
            t = body.term(bb)
            cur = set(us)
            if t["k"] == "drop" and not t["pl"]["p"] and t["pl"]["l"] in cur:
                cur.discard(t["pl"]["l"])
            elif t["k"] == "call":
                for a in t["args"]:
                    if a["k"] == "move" and not a["pl"]["p"] and a["pl"]["l"] in cur:
                        cur.discard(a["pl"]["l"])
                if lab == "ret" and not t["dest"]["p"] and t["dest"]["l"] in gset:
                    nm = strip_generics(t.get("resolved") or t.get("callee"))
                    if nm == LOCK and DB_FIELDS in (t.get("substs") or []):
                        cur.add(t["dest"]["l"])
            return frozenset(cur)

        try:
            seen, _ = body.explore(frozenset(), transfer)
        except ExploreCap:
            # fall back: conservative "may held everywhere after first lock"
            m = {b: (True, False) for b in range(n)}
            self._held[body.path] = m
            return m
        self.paths += len(seen)
        per = {}
        for (bb, fl, us) in seen:
            per.setdefault(bb, []).append(bool(us))
        m = {}
        for b in range(n):
            v = per.get(b)
            if not v:
                m[b] = (False, False)  # unreachable on normal flow
            else:
                m[b] = (any(v), all(v))
        self._held[body.path] = m
        return m

    def site_state(self, cs, _depth=0):
        """'held' | 'unlocked' | 'maybe' | 'unknown' for the DB mutex at this call site (state while the
        call executes; for the lock() call itself the state before it)."""
        body = cs.body
        may, must = self.held_map(body)[cs.bb]
        if must:
            return "held"
        if may:
            return "maybe"
        # not held by own guards: context
        if body.kind == "closure" and _depth < 8:
            kind, site = self.closure_context(body)
            if kind in ("unlocked", "detached"):
                return "unlocked"
            if kind == "inherit" and site is not None:
                return self.site_state(site, _depth + 1)
            return "unknown"
        if self.own_guards(body):
            return "unlocked" if body.kind != "closure" else "unknown"
        return "unknown"

    # ---------------------------------------------------------------- summaries
    def may_lock(self):
        """Set of body paths that may acquire the DB mutex when called while their caller keeps its own
        guard (i.e. not via a guard the caller handed in)."""
        if self._maylock is not None:
            return self._maylock
        prog = self.prog
        direct = set()
        for p, b in prog.bodies.items():
            for cs in b.calls():
                if is_db_lock(cs):
                    direct.add(p)
                    break
        # edges f -> g where g's locking counts for f: local callee; closures run synchronously (not
        # unlocked_fair / detached)
        edges = {}
        for p, b in prog.bodies.items():
            s = set()
            for cs in b.calls():
                t = cs.t
                tgt = []
                if t.get("local") and t.get("resolved") in prog.bodies and not t.get("dyn"):
                    tgt.append(t["resolved"])
                elif t.get("dyn") or (t.get("resolved") is None and t.get("callee") in prog.trait_impls):
                    tgt += prog.dyn_targets(t)
                if not (is_unlocked_fair(cs) or cs.name in DETACHED_CONSUMERS):
                    tgt += [c for c in cs.closure_args() if c in prog.bodies]
                for g in tgt:
                    s.add(g)
            edges[p] = s
        ml = set(direct)
        changed = True
        while changed:
            changed = False
            for p, s in edges.items():
                if p not in ml and s & ml:
                    ml.add(p)
                    changed = True
        self._maylock = ml
        self._ml_edges = edges
        self._ml_direct = direct
        return ml

    def lock_witness(self, path, limit=12):
        """A call chain path -> ... -> body containing a lock() call."""
        self.may_lock()
        chain = [path]
        cur = path
        seen = {path}
        while cur not in self._ml_direct and len(chain) < limit:
            nxt = None
            for g in sorted(self._ml_edges.get(cur, ())):
                if g in self._maylock and g not in seen:
                    nxt = g
                    break
            if nxt is None:
                break
            chain.append(nxt)
            seen.add(nxt)
            cur = nxt
        return chain
