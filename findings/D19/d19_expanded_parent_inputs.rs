//! D19: `CompactionManifest::finalize_compaction_inputs` adopts an expanded set of parent level
//! files that was never boundary-expanded.
//!
//! LevelDB's `VersionSet::SetupOtherInputs` calls `AddBoundaryInputs` on `expanded1` (the parent
//! level files that overlap the grown compaction level inputs) before it compares
//! `expanded1.size() == inputs_[1].size()`. RainDB boundary-expands `expanded0` a second time
//! instead. `inputs[1]` was boundary-expanded, so the comparison can succeed with a different set
//! of the same size and the adopted parent set can lack a boundary file, i.e. the file that holds
//! the older versions of a user key whose newer versions end the previous file.
//!
//! Layout built here through the public API (`max_block_size = 1`, `max_file_size = 1000`, values
//! of 1200 bytes, which makes every compaction output file hold exactly two entries):
//!
//! ```text
//! level 2:  Q = [c .. e]   P = [g .. k@Delete]   B = [k@Put .. l]
//! level 1:  G = [d .. h]   F = [j .. j]
//! ```
//!
//! `compact_range(j..j)` selects `F` at level 1:
//!
//! * `inputs[0] = {F}`, `inputs[1] = {P}`, boundary-expanded to `{P, B}` (2 files)
//! * the range of all the files is `[g .. l]`, so `expanded0 = {G, F}` with the range `[d .. j]`
//! * `expanded1` = files of level 2 that overlap `[d .. j]` = `{Q, P}` (2 files)
//! * 2 == 2, the expansion is adopted and `B` is left out of the compaction
//!
//! The merge sees `k@Delete` without `k@Put`. There is no snapshot and nothing below level 2, so
//! the tombstone is dropped. `k@Put` survives in `B` and the deleted key is readable again.

use std::sync::Arc;

use raindb::db::DatabaseDescriptor;
use raindb::fs::{FileSystem, InMemoryFileSystem};
use raindb::{DbOptions, RainDBError, RainDbIterator, ReadOptions, WriteOptions, DB};

const VALUE_SIZE: usize = 1200;

/// A value of `VALUE_SIZE` bytes that starts with `tag` and does not compress well.
fn value(tag: &str) -> String {
    let mut state: u64 = tag
        .bytes()
        .fold(0x9E37_79B9_7F4A_7C15, |acc, byte| {
            (acc ^ byte as u64).wrapping_mul(0x0100_0000_01B3)
        });
    let mut generated = format!("{tag}:");
    while generated.len() < VALUE_SIZE {
        state = state
            .wrapping_mul(6364136223846793005)
            .wrapping_add(1442695040888963407);
        let index = ((state >> 33) % 62) as u8;
        let character = match index {
            0..=9 => b'0' + index,
            10..=35 => b'a' + (index - 10),
            _ => b'A' + (index - 36),
        };
        generated.push(character as char);
    }

    generated
}

/// Flush the memtable without compacting any table file (the range is beyond every stored key).
fn flush(db: &DB) {
    db.compact_range(Some("~".as_bytes())..Some("~~".as_bytes()));
}

fn put(db: &DB, key: &str, value: &str) {
    db.put(WriteOptions::default(), key.into(), value.into())
        .unwrap();
}

fn delete(db: &DB, key: &str) {
    db.delete(WriteOptions::default(), key.into()).unwrap();
}

fn sstables(db: &DB) -> String {
    db.get_descriptor(DatabaseDescriptor::SSTables).unwrap()
}

fn files_per_level(db: &DB) -> Vec<usize> {
    (0..7)
        .map(|level| {
            db.get_descriptor(DatabaseDescriptor::NumFilesAtLevel(level))
                .unwrap()
                .parse::<usize>()
                .unwrap()
        })
        .collect()
}

/// A full scan. Values are shortened to their tag.
fn scan(db: &DB) -> Vec<(String, String)> {
    let mut contents = vec![];
    let mut iter = db.new_iterator(ReadOptions::default()).unwrap();
    iter.seek_to_first().unwrap();
    while iter.is_valid() {
        let (key, value) = iter.current().unwrap();
        let value = String::from_utf8_lossy(value).to_string();
        contents.push((
            String::from_utf8_lossy(key).to_string(),
            value.split(':').next().unwrap().to_string(),
        ));
        iter.next();
    }

    contents
}

fn get_tag(db: &DB, key: &str) -> Result<String, RainDBError> {
    db.get(ReadOptions::default(), key.as_bytes()).map(|value| {
        String::from_utf8_lossy(&value)
            .split(':')
            .next()
            .unwrap()
            .to_string()
    })
}

#[test]
fn d19_deleted_key_stays_deleted_when_compaction_inputs_are_expanded() {
    let mem_fs: Arc<dyn FileSystem> = Arc::new(InMemoryFileSystem::new());
    let db = DB::open(DbOptions {
        filesystem_provider: mem_fs,
        create_if_missing: true,
        // One entry per block. A compaction output is closed by the entry that follows the first
        // 1000 bytes of flushed blocks, i.e. after two entries.
        max_block_size: 1,
        max_file_size: 1000,
        ..DbOptions::default()
    })
    .unwrap();

    // An old version of `l` in level 2. Its only purpose is to make the next flush stop at level 1.
    put(&db, "l", &value("l0"));
    flush(&db);
    assert_eq!(files_per_level(&db), vec![0, 0, 1, 0, 0, 0, 0]);

    // `k` is written, captured by a snapshot and deleted
    put(&db, "c", &value("c1"));
    put(&db, "e", &value("e1"));
    put(&db, "g", &value("g1"));
    put(&db, "k", &value("k-old"));
    put(&db, "l", &value("l1"));
    let snapshot = db.get_snapshot();
    delete(&db, "k");
    flush(&db);
    println!("layout after the flushes:\n{}", sstables(&db));
    assert_eq!(files_per_level(&db), vec![0, 1, 1, 0, 0, 0, 0]);

    // Rewrite everything into level 2 while the snapshot is alive. Both versions of `k` survive and
    // are split over two files: Q = [c .. e], P = [g .. k@Delete], B = [k@Put .. l]
    db.compact_range(Some("c".as_bytes())..Some("l".as_bytes()));
    println!(
        "layout with both versions of k in level 2:\n{}",
        sstables(&db)
    );
    assert_eq!(files_per_level(&db), vec![0, 0, 3, 0, 0, 0, 0]);
    assert_eq!(get_tag(&db, "k"), Err(RainDBError::KeyNotFound));
    assert_eq!(
        db.get(
            ReadOptions {
                snapshot: Some(snapshot.clone()),
                ..ReadOptions::default()
            },
            "k".as_bytes()
        ),
        Ok(value("k-old").into_bytes())
    );

    db.release_snapshot(snapshot);

    // G = [d .. h] in level 1: overlaps Q and P of level 2
    put(&db, "d", &value("d1"));
    put(&db, "h", &value("h1"));
    flush(&db);
    assert_eq!(files_per_level(&db), vec![0, 1, 3, 0, 0, 0, 0]);

    // F = [j .. j] in level 1: overlaps only P of level 2
    put(&db, "j", &value("j1"));
    flush(&db);
    println!("layout BEFORE the compaction of j..j:\n{}", sstables(&db));
    assert_eq!(files_per_level(&db), vec![0, 2, 3, 0, 0, 0, 0]);

    let contents_before = scan(&db);
    assert_eq!(get_tag(&db, "k"), Err(RainDBError::KeyNotFound));

    // Compact F. The inputs are expanded to {G, F} + {Q, P} and B = [k@Put .. l] is left out.
    db.compact_range(Some("j".as_bytes())..Some("j".as_bytes()));
    println!("layout AFTER the compaction of j..j:\n{}", sstables(&db));

    let contents_after = scan(&db);
    let get_after = get_tag(&db, "k");
    println!("get(k) before compaction: Err(KeyNotFound)");
    println!("get(k) after compaction:  {:?}", get_after);
    println!("scan before: {:?}", contents_before);
    println!("scan after:  {:?}", contents_after);

    assert_eq!(
        get_after,
        Err(RainDBError::KeyNotFound),
        "the deleted key `k` is readable again after the compaction"
    );
    assert_eq!(
        contents_before, contents_after,
        "a full scan shows different contents before and after the compaction"
    );
}
