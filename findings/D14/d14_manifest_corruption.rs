//! A corrupted manifest record must make `DB::open` fail (C15): it must not be skipped silently.
use std::collections::BTreeMap;
use std::io::Write;
use std::path::PathBuf;
use std::sync::Arc;

use raindb::fs::{FileSystem, InMemoryFileSystem};
use raindb::{DbOptions, ReadOptions, WriteOptions, DB};

const DB_PATH: &str = "/d14";
type FsImage = BTreeMap<PathBuf, Vec<u8>>;

fn snapshot_fs(fs: &Arc<dyn FileSystem>) -> FsImage {
    let mut image = FsImage::new();
    let mut dirs = vec![PathBuf::from(DB_PATH)];
    while let Some(dir) = dirs.pop() {
        for path in fs.list_dir(&dir).unwrap() {
            match fs.open_file(&path) {
                Ok(file) => {
                    let len = file.len().unwrap() as usize;
                    let mut contents = vec![0_u8; len];
                    if len > 0 {
                        file.read_from(&mut contents, 0).unwrap();
                    }
                    image.insert(path, contents);
                }
                Err(_) => dirs.push(path),
            }
        }
    }
    image
}

fn restore_fs(image: &FsImage) -> Arc<dyn FileSystem> {
    let fs: Arc<dyn FileSystem> = Arc::new(InMemoryFileSystem::new());
    for (path, contents) in image {
        let mut file = fs.create_file(path, false).unwrap();
        file.write_all(contents).unwrap();
    }
    fs
}

fn options(fs: Arc<dyn FileSystem>) -> DbOptions {
    DbOptions {
        db_path: DB_PATH.to_string(),
        filesystem_provider: fs,
        create_if_missing: true,
        ..DbOptions::default()
    }
}

#[test]
fn a_corrupted_manifest_record_is_not_skipped_silently() {
    let fs: Arc<dyn FileSystem> = Arc::new(InMemoryFileSystem::new());
    {
        let db = DB::open(options(Arc::clone(&fs))).unwrap();
        for i in 0..10 {
            db.put(WriteOptions::default(), format!("key{i:02}").into_bytes(), format!("val{i:02}").into_bytes()).unwrap();
        }
        // flush the memtable to a table file: the manifest gets a record that adds the file
        db.compact_range(None..None);
    }
    let image = snapshot_fs(&fs);
    let (manifest_path, manifest) = image
        .iter()
        .filter(|(p, _)| p.extension().map_or(false, |e| e == "manifest"))
        .max_by_key(|(_, c)| c.len())
        .map(|(p, c)| (p.clone(), c.clone()))
        .unwrap();
    println!("manifest {:?} has {} bytes", manifest_path, manifest.len());

    let mut silent_losses = 0;
    let mut cases = 0;
    // corrupt one payload byte at a time (skip the 7-byte header of the first record to stay in payloads)
    for offset in (8..manifest.len()).step_by(3) {
        let mut damaged = image.clone();
        damaged.get_mut(&manifest_path).unwrap()[offset] ^= 0x40;
        let fs2 = restore_fs(&damaged);
        cases += 1;
        match DB::open(options(Arc::clone(&fs2))) {
            Err(_) => {} // detected: fine
            Ok(db) => {
                for i in 0..10 {
                    let got = db.get(ReadOptions::default(), format!("key{i:02}").as_bytes());
                    match got {
                        Ok(v) if v == format!("val{i:02}").into_bytes() => {}
                        Ok(v) => {
                            silent_losses += 1;
                            println!("offset {offset}: key{i:02} read {:?}", String::from_utf8_lossy(&v));
                            break;
                        }
                        Err(e) => {
                            // an error for a key that was written is only acceptable if it is not KeyNotFound
                            if format!("{e}").contains("not be found") || format!("{e:?}").contains("KeyNotFound") {
                                silent_losses += 1;
                                println!("offset {offset}: open succeeded but key{i:02} -> {e:?}");
                                break;
                            }
                        }
                    }
                }
            }
        }
    }
    println!("{silent_losses} of {cases} single-byte manifest corruptions silently lost data");
    assert_eq!(silent_losses, 0);
}
