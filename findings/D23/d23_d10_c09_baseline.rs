//! Reproducers for observations about the UNMODIFIED code (C09). Not a demo of a seeded change.

use std::sync::mpsc;
use std::thread;
use std::time::Duration;

use raindb::{DbOptions, RainDbIterator, ReadOptions, WriteOptions, DB};

/// Closing the database while an iterator is still alive panics in `Drop for DB`
/// (`Arc::get_mut(&mut self.compaction_worker).unwrap()`): the iterator owns a clone of the
/// `Arc<CompactionWorker>` and its type is not tied to the lifetime of the database.
#[test]
fn baseline_closing_the_database_with_a_live_iterator() {
    let options = DbOptions {
        db_path: "/c09-baseline-1".to_string(),
        create_if_missing: true,
        ..DbOptions::with_memory_env()
    };
    let db = DB::open(options).unwrap();
    db.put(WriteOptions::default(), "a".into(), "1".into())
        .unwrap();

    let mut iter = db.new_iterator(ReadOptions::default()).unwrap();
    iter.seek_to_first().unwrap();
    assert!(iter.is_valid());

    let (done_sender, done_receiver) = mpsc::channel::<()>();
    let closer = thread::spawn(move || {
        drop(db);
        done_sender.send(()).unwrap();
    });
    let closed_in_time = done_receiver.recv_timeout(Duration::from_secs(10)).is_ok();
    let close_result = closer.join();
    drop(iter);

    assert!(closed_in_time, "closing the database did not return");
    assert!(close_result.is_ok(), "closing the database panicked");
}

/// With a `max_memtable_size` below the footprint of an empty skip list the very first write
/// never returns: `make_room_for_write` rotates the (empty) memtable over and over because a fresh
/// memtable is already "full".
#[test]
fn baseline_tiny_max_memtable_size() {
    let options = DbOptions {
        db_path: "/c09-baseline-2".to_string(),
        create_if_missing: true,
        max_memtable_size: 16,
        ..DbOptions::with_memory_env()
    };
    let db = DB::open(options).unwrap();

    let (done_sender, done_receiver) = mpsc::channel::<()>();
    thread::spawn(move || {
        db.put(WriteOptions::default(), "a".into(), "1".into())
            .unwrap();
        done_sender.send(()).unwrap();
    });

    assert!(
        done_receiver.recv_timeout(Duration::from_secs(10)).is_ok(),
        "the first `put` did not return within 10 seconds"
    );
}
