use std::collections::BTreeSet;
use std::path::Path;
use std::sync::Arc;
use raindb::db::DatabaseDescriptor;
use raindb::fs::{FileSystem, InMemoryFileSystem};
use raindb::{DbOptions, RainDbIterator, ReadOptions, WriteOptions, DB};

fn on_disk(fs: &Arc<dyn FileSystem>, p: &str) -> BTreeSet<u64> {
    fs.list_dir(&Path::new(p).join("data")).unwrap().into_iter()
        .filter(|x| x.extension().map_or(false, |e| e == "rdb"))
        .map(|x| x.file_stem().unwrap().to_str().unwrap().parse::<u64>().unwrap()).collect()
}
fn current(db: &DB) -> BTreeSet<u64> {
    db.get_descriptor(DatabaseDescriptor::SSTables).unwrap().lines()
        .filter(|l| !l.starts_with("---") && !l.trim().is_empty())
        .map(|l| l.split_whitespace().next().unwrap().parse::<u64>().unwrap()).collect()
}

#[test]
fn files_pinned_by_a_released_iterator_are_reclaimed_without_further_writes() {
    let fs: Arc<dyn FileSystem> = Arc::new(InMemoryFileSystem::new());
    let p = "/c11_baseline_iter";
    let db = DB::open(DbOptions { db_path: p.to_string(), filesystem_provider: Arc::clone(&fs), create_if_missing: true, ..DbOptions::default() }).unwrap();
    db.put(WriteOptions::default(), b"a".to_vec(), b"1".to_vec()).unwrap();
    db.compact_range(None..None);
    let t1 = on_disk(&fs, p);
    let mut iter = db.new_iterator(ReadOptions::default()).unwrap();
    db.put(WriteOptions::default(), b"a".to_vec(), b"2".to_vec()).unwrap();
    db.compact_range(None..None);
    assert!(on_disk(&fs, p).is_superset(&t1), "pinned file must stay");
    iter.seek_to_first().unwrap();
    assert_eq!(iter.current().unwrap().1, &b"1".to_vec());
    drop(iter);
    // Nothing pins t1 anymore and compactions have quiesced
    std::thread::sleep(std::time::Duration::from_millis(300));
    assert_eq!(on_disk(&fs, p), current(&db), "dead table file kept after the iterator was released");
}
