//! C15 baseline observation #2 (UNMODIFIED tree), probe only: the table footer is not covered by
//! any checksum and the block handles in it are not validated against the file length. Garbage in
//! the size varint of the index handle makes `Table::read_block_from_disk` evaluate
//! `vec![0; size + 5]`, which aborts the whole process ("memory allocation of 9223372036854775797
//! bytes failed", SIGABRT) on the first read that opens the table instead of returning an error.
//! Drop the file in `tests/` and run `cargo test --offline --test c15_baseline_footer_handle_size_abort`.

use std::io::{Read, Write};
use std::path::Path;
use std::sync::Arc;
use raindb::fs::{FileSystem, InMemoryFileSystem};
use raindb::{DbOptions, ReadOptions, WriteOptions, DB};

fn options(fs: &Arc<InMemoryFileSystem>) -> DbOptions {
    let filesystem_provider: Arc<dyn FileSystem> = fs.clone();
    DbOptions { db_path: "zz".to_string(), filesystem_provider, create_if_missing: true, ..DbOptions::default() }
}
fn varint_len(buf: &[u8]) -> usize { buf.iter().position(|b| b & 0x80 == 0).unwrap() + 1 }

#[test]
fn footer_huge_size() {
    let fs = Arc::new(InMemoryFileSystem::new());
    {
        let db = DB::open(options(&fs)).unwrap();
        db.put(WriteOptions::default(), b"apple".to_vec(), b"red".to_vec()).unwrap();
        db.compact_range(None..None);
    }
    let tables = fs.list_dir(&Path::new("zz").join("data")).unwrap();
    let path = &tables[0];
    let mut contents = vec![];
    fs.open_file(path).unwrap().read_to_end(&mut contents).unwrap();
    let footer_start = contents.len() - 48;
    let footer = &mut contents[footer_start..];
    let mut cursor = 0;
    for _ in 0..3 { cursor += varint_len(&footer[cursor..]); }
    // cursor is at the size of the index handle; overwrite with a huge varint
    let huge: [u8; 9] = [0xf0, 0xff, 0xff, 0xff, 0xff, 0xff, 0xff, 0xff, 0x7f];
    footer[cursor..cursor + 9].copy_from_slice(&huge);
    let mut f = fs.create_file(path, false).unwrap();
    f.write_all(&contents).unwrap();
    drop(f);
    let db = match DB::open(options(&fs)) { Ok(db) => db, Err(e) => { eprintln!("open failed: {e}"); return; } };
    let res = db.get(ReadOptions::default(), b"apple");
    eprintln!("get result: {:?}", res.map_err(|e| e.to_string()));
}
