//! Baseline observation (outside the C12 property as stated: needs a damaged byte, not a cut).
//! One damaged WAL record makes the replay lose records of *later blocks* as well.

use std::io::{Read, Write};
use std::path::PathBuf;
use std::sync::Arc;

use raindb::fs::{FileSystem, InMemoryFileSystem};
use raindb::{DbOptions, ReadOptions, WriteOptions, DB};

const BLOCK_SIZE: usize = 32 * 1024;
const DB_PATH: &str = "/c12/obs";

fn options(fs: &Arc<dyn FileSystem>) -> DbOptions {
    DbOptions {
        db_path: DB_PATH.to_string(),
        filesystem_provider: Arc::clone(fs),
        create_if_missing: true,
        max_memtable_size: 64 * 1024 * 1024,
        ..DbOptions::default()
    }
}

#[test]
fn one_damaged_record_only_costs_that_record() {
    let fs: Arc<dyn FileSystem> = Arc::new(InMemoryFileSystem::new());
    {
        let db = DB::open(options(&fs)).unwrap();
        // record "a": 7 + 8+1+1+2+(1+20) = 40 bytes
        db.put(WriteOptions::default(), b"a".to_vec(), vec![1; 20]).unwrap();
        // record "b": 7 + 8+1+1+2+(2+200) = 221 bytes, payload starts at 47
        db.put(WriteOptions::default(), b"b".to_vec(), vec![2; 200]).unwrap();
        // filler: ends 3 bytes before the block boundary
        // 261 + 7 + 8+1+1+2 + 3 + v = 32765 => v = 32482
        db.put(WriteOptions::default(), b"f".to_vec(), vec![3; 32482]).unwrap();
        db.put(WriteOptions::default(), b"c".to_vec(), vec![4; 20]).unwrap();
        db.put(WriteOptions::default(), b"d".to_vec(), vec![5; 20]).unwrap();
    }
    let wal = fs.list_dir(&PathBuf::from(DB_PATH).join("wal")).unwrap().remove(0);
    let mut contents = vec![];
    fs.open_file(&wal).unwrap().read_to_end(&mut contents).unwrap();
    assert_eq!(contents.len(), BLOCK_SIZE + 40 + 40);
    // Damage one payload byte of "b"
    contents[100] ^= 0xff;
    let mut file = fs.create_file(&wal, false).unwrap();
    file.write_all(&contents).unwrap();
    drop(file);

    let db = DB::open(options(&fs)).unwrap();
    assert_eq!(db.get(ReadOptions::default(), b"a").unwrap(), vec![1; 20]);
    assert!(db.get(ReadOptions::default(), b"b").is_err());
    assert_eq!(db.get(ReadOptions::default(), b"f").unwrap(), vec![3; 32482]);
    // These are in the next block, behind a 3 byte trailer
    assert_eq!(db.get(ReadOptions::default(), b"c").unwrap(), vec![4; 20]);
    assert_eq!(db.get(ReadOptions::default(), b"d").unwrap(), vec![5; 20]);
}
