use raindb::db::DatabaseDescriptor;
use raindb::{DbOptions, ReadOptions, WriteOptions, DB};
fn flush(db: &DB) { db.compact_range(Some(b"~~~0".as_slice())..Some(b"~~~1".as_slice())); }
fn put(db: &DB, k: &[u8], v: &[u8]) { db.put(WriteOptions::default(), k.to_vec(), v.to_vec()).unwrap(); }
fn shape(db: &DB) -> Vec<usize> { (0..7).map(|l| db.get_descriptor(DatabaseDescriptor::NumFilesAtLevel(l)).unwrap().parse().unwrap()).collect() }
#[test]
fn probe() {
    let mut o = DbOptions::with_memory_env(); o.create_if_missing = true;
    let db = DB::open(o).unwrap();
    put(&db, b"p", b"p0"); put(&db, b"q", b"q0"); flush(&db);
    put(&db, b"p", b"p1"); put(&db, b"q", b"q1"); flush(&db);
    put(&db, b"b", b"b0"); put(&db, b"z", b"z0"); flush(&db);
    put(&db, b"k", b"k0"); put(&db, b"m", b"m0"); flush(&db);
    println!("shape before {:?}", shape(&db));
    db.compact_range(None..None);
    println!("shape after {:?}", shape(&db));
    for k in [b"b", b"k", b"m", b"p", b"q", b"z"] {
        println!("{:?} -> {:?}", k, db.get(ReadOptions::default(), k));
    }
    println!("put after: {:?}", db.put(WriteOptions::default(), b"x".to_vec(), b"x".to_vec()));
}
