use raindb::db::DatabaseDescriptor;
use raindb::{DbOptions, RainDbIterator, ReadOptions, WriteOptions, DB};

fn put(db: &DB, key: &str, value: &str) {
    db.put(WriteOptions::default(), key.as_bytes().to_vec(), value.as_bytes().to_vec()).unwrap();
}
fn flush(db: &DB) {
    db.compact_range(Some("0".as_bytes())..Some("1".as_bytes()));
}
fn scan(db: &DB) -> Vec<(String, String)> {
    let mut iter = db.new_iterator(ReadOptions::default()).unwrap();
    let mut contents = vec![];
    iter.seek_to_first().unwrap();
    while iter.is_valid() {
        let (key, value) = iter.current().unwrap();
        contents.push((String::from_utf8(key.to_vec()).unwrap(), String::from_utf8(value.to_vec()).unwrap()));
        iter.next();
    }
    contents
}
fn get(db: &DB, k: &str) -> String {
    format!("{:?}", db.get(ReadOptions::default(), k.as_bytes()).map(|v| String::from_utf8(v).unwrap()))
}

#[test]
fn probe() {
    let mut options = DbOptions::with_memory_env();
    options.create_if_missing = true;
    options.db_path = "zz_probe".to_string();
    let db = DB::open(options).unwrap();
    put(&db, "e", "e0"); flush(&db);
    put(&db, "d", "old"); put(&db, "e", "e1"); flush(&db);
    put(&db, "b", "vb"); put(&db, "z", "vz"); db.delete(WriteOptions::default(), b"d".to_vec()).unwrap(); flush(&db);
    put(&db, "a", "va"); put(&db, "c", "vc"); flush(&db);
    println!("{}", db.get_descriptor(DatabaseDescriptor::SSTables).unwrap());
    println!("before: {:?} d={} e={}", scan(&db), get(&db, "d"), get(&db, "e"));
    db.compact_range(Some("a".as_bytes())..Some("c".as_bytes()));
    println!("{}", db.get_descriptor(DatabaseDescriptor::SSTables).unwrap());
    println!("after: {:?} d={} e={}", scan(&db), get(&db, "d"), get(&db, "e"));
}
