//! Probe D28: manifest appends continue after a failed manifest append.
//!
//! Scenario (public API only):
//!
//! 1. A table compaction (`CompactionWorker::compact_tables`) is parked in its merge loop by a
//!    file system wrapper that blocks ONE table read of the compaction thread.
//! 2. Meanwhile the client fills the memtable, so a memtable rotation happens. The flush of the
//!    immutable memtable is then done INSIDE the merge loop of `compact_tables`.
//! 3. The wrapper injects ONE fault: the next record written to `MANIFEST-*` is torn after its
//!    7 byte header (short write of 7 bytes, the following write call fails). Nothing else fails,
//!    before or after.
//! 4. The database is dropped and reopened with the plain, fault-free in-memory file system over
//!    the very same files.
//!
//! The test asserts the behaviour a client may expect: the database can be reopened and every
//! write that was acknowledged (`put` returned `Ok`) is readable.
//!
//! Note on the fault model: `LogWriter::emit_block` hands header + payload to a single
//! `write_all` call. `write_all` is a loop around `Write::write`, and `write` may legally accept
//! only a prefix of the buffer (short write). The wrapper accepts exactly the 7 header bytes and
//! fails the next `write` call, which is the "header is on disk, payload is not" fault.

use std::collections::{BTreeMap, HashSet};
use std::io::{self, Read, Seek, SeekFrom, Write};
use std::path::{Path, PathBuf};
use std::sync::{Arc, Condvar, Mutex};
use std::thread;
use std::time::{Duration, Instant};

use raindb::fs::{
    FileLock, FileSystem, InMemoryFileSystem, RandomAccessFile, ReadonlyRandomAccessFile,
};
use raindb::{DbOptions, ReadOptions, WriteOptions, DB};

const DB_PATH: &str = "/d28";
const HEADER_LEN: usize = 7;

#[derive(Default)]
struct State {
    // Parking of the compaction thread
    hold_armed: bool,
    old_files: HashSet<PathBuf>,
    held: bool,
    held_on: Option<PathBuf>,
    release: bool,

    // The one-shot manifest fault. 0 = idle, 1 = header passed, fail the next write, 2 = done
    fault_armed: bool,
    fault_stage: u8,
    torn_record_len: usize,
    manifest_bytes_before_torn_record: usize,

    // Bookkeeping
    manifest_bytes: usize,
    manifest_full_writes_after_fault: usize,
    wal_creates: usize,
    table_creates_after_fault: usize,
    events: Vec<String>,
}

#[derive(Default)]
struct Ctl {
    state: Mutex<State>,
    cv: Condvar,
}

impl Ctl {
    fn event(&self, st: &mut State, msg: String) {
        let thread_name = thread::current().name().unwrap_or("?").to_string();
        st.events.push(format!("[{thread_name}] {msg}"));
    }
}

fn is_compaction_thread() -> bool {
    thread::current()
        .name()
        .map_or(false, |name| name.starts_with("raindb-"))
}

fn is_manifest(path: &Path) -> bool {
    path.file_name()
        .map_or(false, |name| name.to_string_lossy().starts_with("MANIFEST"))
}

fn has_ext(path: &Path, ext: &str) -> bool {
    path.extension().map_or(false, |e| e == ext)
}

/// File system wrapper around the in-memory file system.
struct FaultFs {
    inner: Arc<InMemoryFileSystem>,
    ctl: Arc<Ctl>,
}

struct RoFile {
    inner: Box<dyn ReadonlyRandomAccessFile>,
    path: PathBuf,
    ctl: Arc<Ctl>,
}

struct RwFile {
    inner: Box<dyn RandomAccessFile>,
    path: PathBuf,
    ctl: Arc<Ctl>,
}

impl Read for RoFile {
    fn read(&mut self, buf: &mut [u8]) -> io::Result<usize> {
        self.inner.read(buf)
    }
}

impl Seek for RoFile {
    fn seek(&mut self, pos: SeekFrom) -> io::Result<u64> {
        self.inner.seek(pos)
    }
}

impl ReadonlyRandomAccessFile for RoFile {
    fn read_from(&self, buf: &mut [u8], offset: usize) -> io::Result<usize> {
        if is_compaction_thread() {
            let mut st = self.ctl.state.lock().unwrap();
            if st.hold_armed && st.old_files.contains(&self.path) {
                // Park the compaction thread exactly once, in the middle of a table compaction
                st.hold_armed = false;
                st.held = true;
                st.held_on = Some(self.path.clone());
                let msg = format!(
                    "PARKED: table compaction reads old table {:?} at offset {offset}",
                    self.path
                );
                self.ctl.event(&mut st, msg);
                self.ctl.cv.notify_all();
                while !st.release {
                    st = self.ctl.cv.wait(st).unwrap();
                }
                self.ctl
                    .event(&mut st, "RESUMED: table compaction continues".to_string());
            }
        }

        self.inner.read_from(buf, offset)
    }

    fn len(&self) -> io::Result<u64> {
        self.inner.len()
    }
}

impl Read for RwFile {
    fn read(&mut self, buf: &mut [u8]) -> io::Result<usize> {
        self.inner.read(buf)
    }
}

impl Seek for RwFile {
    fn seek(&mut self, pos: SeekFrom) -> io::Result<u64> {
        self.inner.seek(pos)
    }
}

impl ReadonlyRandomAccessFile for RwFile {
    fn read_from(&self, buf: &mut [u8], offset: usize) -> io::Result<usize> {
        self.inner.read_from(buf, offset)
    }

    fn len(&self) -> io::Result<u64> {
        self.inner.len()
    }
}

impl Write for RwFile {
    fn write(&mut self, buf: &[u8]) -> io::Result<usize> {
        if !is_manifest(&self.path) {
            return self.inner.write(buf);
        }

        let mut st = self.ctl.state.lock().unwrap();
        if st.fault_stage == 1 {
            // The payload of the torn record: fail, exactly once
            st.fault_stage = 2;
            let msg = format!(
                "FAULT: manifest write of the remaining {} bytes fails (record torn after its \
                header, manifest is {} bytes long)",
                buf.len(),
                st.manifest_bytes
            );
            self.ctl.event(&mut st, msg);
            self.ctl.cv.notify_all();
            return Err(io::Error::new(
                io::ErrorKind::Other,
                "injected one-shot fault: manifest payload write failed",
            ));
        }

        if st.fault_armed && buf.len() > HEADER_LEN {
            // The header of the record gets through (short write)
            st.fault_armed = false;
            st.fault_stage = 1;
            st.torn_record_len = buf.len();
            st.manifest_bytes_before_torn_record = st.manifest_bytes;
            let msg = format!(
                "FAULT: manifest write of {} bytes at offset {}: only the {HEADER_LEN} header \
                bytes are written",
                buf.len(),
                st.manifest_bytes
            );
            self.ctl.event(&mut st, msg);
            let written = self.inner.write(&buf[..HEADER_LEN])?;
            st.manifest_bytes += written;
            return Ok(written);
        }

        let written = self.inner.write(buf)?;
        let offset = st.manifest_bytes;
        st.manifest_bytes += written;
        if st.fault_stage == 2 {
            st.manifest_full_writes_after_fault += 1;
            let msg = format!(
                "manifest write AFTER the failed append: {written} bytes at offset {offset} -> OK"
            );
            self.ctl.event(&mut st, msg);
        }

        Ok(written)
    }

    fn flush(&mut self) -> io::Result<()> {
        self.inner.flush()
    }
}

impl RandomAccessFile for RwFile {
    fn append(&mut self, buf: &[u8]) -> io::Result<usize> {
        // Not used for log files by the database (`LogWriter` uses `write_all`)
        self.inner.append(buf)
    }
}

impl FileSystem for FaultFs {
    fn get_name(&self) -> String {
        "FaultFs(InMemoryFileSystem)".to_string()
    }

    fn create_dir(&self, path: &Path) -> io::Result<()> {
        self.inner.create_dir(path)
    }

    fn create_dir_all(&self, path: &Path) -> io::Result<()> {
        self.inner.create_dir_all(path)
    }

    fn list_dir(&self, path: &Path) -> io::Result<Vec<PathBuf>> {
        self.inner.list_dir(path)
    }

    fn open_file(&self, path: &Path) -> io::Result<Box<dyn ReadonlyRandomAccessFile>> {
        Ok(Box::new(RoFile {
            inner: self.inner.open_file(path)?,
            path: path.to_path_buf(),
            ctl: Arc::clone(&self.ctl),
        }))
    }

    fn rename(&self, from: &Path, to: &Path) -> io::Result<()> {
        self.inner.rename(from, to)
    }

    fn create_file(&self, path: &Path, append: bool) -> io::Result<Box<dyn RandomAccessFile>> {
        {
            let mut st = self.ctl.state.lock().unwrap();
            if has_ext(path, "log") {
                st.wal_creates += 1;
                let msg = format!("new WAL {path:?} (memtable rotation)");
                self.ctl.event(&mut st, msg);
                self.ctl.cv.notify_all();
            } else if has_ext(path, "rdb") && (st.held || st.fault_stage > 0) {
                if st.fault_stage == 2 {
                    st.table_creates_after_fault += 1;
                }
                let msg = format!("new table file {path:?}");
                self.ctl.event(&mut st, msg);
            }
        }

        Ok(Box::new(RwFile {
            inner: self.inner.create_file(path, append)?,
            path: path.to_path_buf(),
            ctl: Arc::clone(&self.ctl),
        }))
    }

    fn remove_file(&self, path: &Path) -> io::Result<()> {
        self.inner.remove_file(path)
    }

    fn remove_dir(&self, path: &Path) -> io::Result<()> {
        self.inner.remove_dir(path)
    }

    fn remove_dir_all(&self, path: &Path) -> io::Result<()> {
        self.inner.remove_dir_all(path)
    }

    fn get_file_size(&self, path: &Path) -> io::Result<u64> {
        self.inner.get_file_size(path)
    }

    fn is_dir(&self, path: &Path) -> io::Result<bool> {
        self.inner.is_dir(path)
    }

    fn lock_file(&self, path: &Path) -> io::Result<FileLock> {
        self.inner.lock_file(path)
    }
}

fn key(i: usize) -> Vec<u8> {
    format!("key{i:06}").into_bytes()
}

fn value(i: usize, generation: usize) -> Vec<u8> {
    format!("value-{i:06}-gen{generation}-{}", "x".repeat(100)).into_bytes()
}

fn wait_until<F: Fn(&State) -> bool>(ctl: &Ctl, what: &str, timeout: Duration, cond: F) {
    let deadline = Instant::now() + timeout;
    let mut st = ctl.state.lock().unwrap();
    while !cond(&st) {
        let now = Instant::now();
        if now >= deadline {
            let events = st.events.join("\n  ");
            panic!("PROBE-INCONCLUSIVE: timed out waiting for: {what}\nevents so far:\n  {events}");
        }
        st = ctl.cv.wait_timeout(st, deadline - now).unwrap().0;
    }
}

/// The probe: the failed manifest append belongs to a memtable flush that runs INSIDE the merge
/// loop of a table compaction. Fails on the unmodified tree.
#[test]
fn d28_database_reopens_after_one_failed_manifest_append_during_a_table_compaction() {
    scenario(true);
}

/// Control: the very same one-shot fault hits a memtable flush that runs on its own (no table
/// compaction in progress). The compaction thread stops after the sticky error, nothing is appended
/// behind the torn record, and the database reopens with every acknowledged write.
#[test]
fn d28_control_same_fault_on_a_plain_flush_is_recoverable() {
    scenario(false);
}

fn scenario(flush_inside_table_compaction: bool) {
    let _ = env_logger::builder().is_test(true).try_init();

    let mem = Arc::new(InMemoryFileSystem::new());
    let ctl = Arc::new(Ctl::default());
    let fault_fs: Arc<dyn FileSystem> = Arc::new(FaultFs {
        inner: Arc::clone(&mem),
        ctl: Arc::clone(&ctl),
    });
    let options = DbOptions {
        db_path: DB_PATH.to_string(),
        max_memtable_size: 16 * 1024,
        max_file_size: 16 * 1024,
        create_if_missing: true,
        filesystem_provider: Arc::clone(&fault_fs),
        ..DbOptions::default()
    };

    // Everything that was acknowledged by the database
    let mut shadow: BTreeMap<Vec<u8>, Vec<u8>> = BTreeMap::new();

    let db = Arc::new(DB::open(options).expect("initial open"));

    // Phase 1: base data, pushed down into table files below level 0
    const NUM_KEYS: usize = 1200;
    for i in 0..NUM_KEYS {
        let (k, v) = (key(i), value(i, 1));
        db.put(WriteOptions::default(), k.clone(), v.clone())
            .expect("phase 1 put");
        shadow.insert(k, v);
    }
    db.compact_range(None..None);

    if !flush_inside_table_compaction {
        control_tail(db, mem, ctl, shadow);
        return;
    }

    // Phase 2: a few overwrites across the whole key range. They stay in the memtable.
    for i in (0..NUM_KEYS).step_by(100) {
        let (k, v) = (key(i), value(i, 2));
        db.put(WriteOptions::default(), k.clone(), v.clone())
            .expect("phase 2 put");
        shadow.insert(k, v);
    }

    // Arm the parking of the compaction thread: the next time it reads one of the table files that
    // exist now, it is inside the merge of a table compaction
    {
        let old_files: HashSet<PathBuf> = mem
            .list_dir(&Path::new(DB_PATH).join("data"))
            .unwrap()
            .into_iter()
            .filter(|p| has_ext(p, "rdb"))
            .collect();
        assert!(!old_files.is_empty(), "there must be table files by now");
        let mut st = ctl.state.lock().unwrap();
        let msg = format!("armed parking on {} old table files", old_files.len());
        ctl.event(&mut st, msg);
        st.old_files = old_files;
        st.hold_armed = true;
    }

    // Phase 3: a manual compaction on another thread. It flushes the memtable and then merges the
    // new file with the (old) files it overlaps.
    let compactor = {
        let db = Arc::clone(&db);
        thread::Builder::new()
            .name("d28-compact-range".to_string())
            .spawn(move || db.compact_range(None..None))
            .unwrap()
    };
    wait_until(
        &ctl,
        "the compaction thread to be parked inside a table compaction",
        Duration::from_secs(30),
        |st| st.held,
    );

    // Phase 4: fill the memtable while the table compaction is parked -> memtable rotation. The
    // immutable memtable can now only be flushed by the merge loop of `compact_tables`.
    let wal_creates_before = ctl.state.lock().unwrap().wal_creates;
    let mut next = 0usize;
    loop {
        let i = (next * 7) % NUM_KEYS;
        let (k, v) = (key(i), value(i, 3));
        db.put(WriteOptions::default(), k.clone(), v.clone())
            .expect("phase 4 put (no fault injected yet)");
        shadow.insert(k, v);
        next += 1;
        if ctl.state.lock().unwrap().wal_creates > wal_creates_before {
            break;
        }
        assert!(next < 5000, "PROBE-INCONCLUSIVE: no memtable rotation");
    }
    // A few more acknowledged writes into the new memtable / new WAL
    for i in 0..5 {
        let (k, v) = (key(i), value(i, 4));
        db.put(WriteOptions::default(), k.clone(), v.clone())
            .expect("phase 4 put into the new memtable");
        shadow.insert(k, v);
    }
    let acknowledged_before_fault = shadow.len();

    // Phase 5: arm the one-shot manifest fault and let the table compaction continue
    {
        let mut st = ctl.state.lock().unwrap();
        st.fault_armed = true;
        st.release = true;
        ctl.event(&mut st, "armed the manifest fault, releasing".to_string());
        ctl.cv.notify_all();
    }
    compactor.join().expect("compact_range thread");

    finish(db, mem, ctl, shadow, acknowledged_before_fault);
}

/// Control: arm the fault while the database is idle, then fill the memtable. The flush is done by
/// `coordinate_compaction` -> `compact_memtable`, outside of any table compaction.
fn control_tail(
    db: Arc<DB>,
    mem: Arc<InMemoryFileSystem>,
    ctl: Arc<Ctl>,
    mut shadow: BTreeMap<Vec<u8>, Vec<u8>>,
) {
    const NUM_KEYS: usize = 1200;
    let wal_creates_before = {
        let mut st = ctl.state.lock().unwrap();
        st.fault_armed = true;
        ctl.event(&mut st, "armed the manifest fault (idle database)".to_string());
        st.wal_creates
    };
    let mut next = 0usize;
    loop {
        let i = (next * 7) % NUM_KEYS;
        let (k, v) = (key(i), value(i, 3));
        match db.put(WriteOptions::default(), k.clone(), v.clone()) {
            Ok(()) => {
                shadow.insert(k, v);
            }
            Err(_) => break,
        }
        next += 1;
        if ctl.state.lock().unwrap().wal_creates > wal_creates_before {
            break;
        }
        assert!(next < 5000, "PROBE-INCONCLUSIVE: no memtable rotation");
    }
    wait_until(
        &ctl,
        "the manifest fault to fire",
        Duration::from_secs(30),
        |st| st.fault_stage == 2,
    );
    // Give the compaction thread the chance to do more (it must not)
    thread::sleep(Duration::from_millis(300));
    let acknowledged_before_fault = shadow.len();
    finish(db, mem, ctl, shadow, acknowledged_before_fault);
}

fn finish(
    db: Arc<DB>,
    mem: Arc<InMemoryFileSystem>,
    ctl: Arc<Ctl>,
    mut shadow: BTreeMap<Vec<u8>, Vec<u8>>,
    acknowledged_before_fault: usize,
) {
    const NUM_KEYS: usize = 1200;

    // Phase 6: the sticky error is expected now. Record what is still acknowledged.
    let mut first_write_error: Option<String> = None;
    let mut acknowledged_after_fault = 0usize;
    for i in 0..20 {
        let (k, v) = (key(NUM_KEYS + i), value(NUM_KEYS + i, 5));
        match db.put(WriteOptions::default(), k.clone(), v.clone()) {
            Ok(()) => {
                acknowledged_after_fault += 1;
                shadow.insert(k, v);
            }
            Err(err) => {
                if first_write_error.is_none() {
                    first_write_error = Some(err.to_string());
                }
            }
        }
    }

    // Reads keep working in this session
    let mut wrong_reads_in_faulty_session = 0usize;
    for (k, v) in shadow.iter() {
        if db.get(ReadOptions::default(), k).ok().as_ref() != Some(v) {
            wrong_reads_in_faulty_session += 1;
        }
    }

    // Phase 7: end the session
    let db = Arc::try_unwrap(db).unwrap_or_else(|_| panic!("db still shared"));
    drop(db);

    let (fault_stage, appends_after_fault, tables_after_fault, torn_at, torn_len, manifest_len) = {
        let st = ctl.state.lock().unwrap();
        println!("---- file system events ----");
        for event in &st.events {
            println!("  {event}");
        }
        (
            st.fault_stage,
            st.manifest_full_writes_after_fault,
            st.table_creates_after_fault,
            st.manifest_bytes_before_torn_record,
            st.torn_record_len,
            st.manifest_bytes,
        )
    };
    println!("---- summary ----");
    println!("fault stage (2 = fired): {fault_stage}");
    println!("torn manifest record: offset {torn_at}, intended length {torn_len}, {HEADER_LEN} bytes written");
    println!("complete manifest records appended AFTER the failed append: {appends_after_fault}");
    println!("table files created AFTER the failed append: {tables_after_fault}");
    println!("manifest length at the end of the session: {manifest_len}");
    println!("acknowledged keys before the fault: {acknowledged_before_fault}");
    println!("puts acknowledged after the fault: {acknowledged_after_fault} of 20");
    println!("first write error after the fault: {first_write_error:?}");
    println!("wrong reads in the faulty session: {wrong_reads_in_faulty_session}");

    assert_eq!(
        fault_stage, 2,
        "PROBE-INCONCLUSIVE: the manifest fault did not fire"
    );

    // Phase 8: reopen with the plain in-memory file system (no wrapper, no fault) on the same files
    let plain_fs: Arc<dyn FileSystem> = mem.clone();
    let reopen_result = DB::open(DbOptions {
        db_path: DB_PATH.to_string(),
        max_memtable_size: 16 * 1024,
        max_file_size: 16 * 1024,
        create_if_missing: false,
        filesystem_provider: plain_fs,
        ..DbOptions::default()
    });

    let db2 = match reopen_result {
        Ok(db2) => db2,
        Err(err) => panic!(
            "D28: DB::open FAILED on a fault-free file system after a session with ONE failed \
            manifest append: `{err}`. All {n} acknowledged keys are inaccessible. The torn record \
            ({HEADER_LEN} of {torn_len} bytes) sits at manifest offset {torn_at} and the same \
            session appended {appends_after_fault} more complete record(s) behind it (manifest \
            length {manifest_len}); {tables_after_fault} table file(s) were written after the \
            failed append.",
            n = shadow.len()
        ),
    };

    let mut missing: Vec<String> = vec![];
    for (k, v) in shadow.iter() {
        match db2.get(ReadOptions::default(), k) {
            Ok(found) if &found == v => {}
            other => missing.push(format!(
                "{} -> {:?}",
                String::from_utf8_lossy(k),
                other.map(|found| String::from_utf8_lossy(&found[..20.min(found.len())]).to_string())
            )),
        }
    }
    assert!(
        missing.is_empty(),
        "D28: the database reopened but {} of {} acknowledged keys are missing or stale \
        ({appends_after_fault} manifest record(s) were appended behind the torn record). First: {:?}",
        missing.len(),
        shadow.len(),
        &missing[..5.min(missing.len())]
    );
}
