/*!
C17 baseline observation (UNMODIFIED code): `DB::destroy_database` releases the database lock
*before* it removes the `LOCK` file (`drop(db_lock)` followed by `fs.remove_file(LOCK)`).

An open that arrives between those two steps locks the `LOCK` inode that is about to be unlinked.
After the unlink the path `LOCK` is free again, so a further open creates a fresh `LOCK` file and
locks it as well: two live instances own the same directory.

The interleaving is forced with a `FileSystem` wrapper that runs a contending `DB::open` right
before the removal of the `LOCK` file is passed on to the real file system. Only public API is
used. This test FAILS on the unmodified tree (that is the observation).
*/

use std::io;
use std::path::{Path, PathBuf};
use std::sync::{Arc, Mutex};

use raindb::fs::{FileLock, FileSystem, OsFileSystem, RandomAccessFile, ReadonlyRandomAccessFile};
use raindb::{DbOptions, WriteOptions, DB};

type Hook = Box<dyn FnOnce() + Send>;

struct HookedFs {
    inner: OsFileSystem,
    before_lock_file_removal: Mutex<Option<Hook>>,
}

impl FileSystem for HookedFs {
    fn get_name(&self) -> String {
        "HookedFs".to_string()
    }
    fn create_dir(&self, path: &Path) -> io::Result<()> {
        self.inner.create_dir(path)
    }
    fn create_dir_all(&self, path: &Path) -> io::Result<()> {
        self.inner.create_dir_all(path)
    }
    fn list_dir(&self, path: &Path) -> io::Result<Vec<PathBuf>> {
        self.inner.list_dir(path)
    }
    fn open_file(&self, path: &Path) -> io::Result<Box<dyn ReadonlyRandomAccessFile>> {
        self.inner.open_file(path)
    }
    fn rename(&self, from: &Path, to: &Path) -> io::Result<()> {
        self.inner.rename(from, to)
    }
    fn create_file(&self, path: &Path, append: bool) -> io::Result<Box<dyn RandomAccessFile>> {
        self.inner.create_file(path, append)
    }
    fn remove_file(&self, path: &Path) -> io::Result<()> {
        if path.file_name().map_or(false, |name| name == "LOCK") {
            if let Some(hook) = self.before_lock_file_removal.lock().unwrap().take() {
                hook();
            }
        }
        self.inner.remove_file(path)
    }
    fn remove_dir(&self, path: &Path) -> io::Result<()> {
        self.inner.remove_dir(path)
    }
    fn remove_dir_all(&self, path: &Path) -> io::Result<()> {
        self.inner.remove_dir_all(path)
    }
    fn get_file_size(&self, path: &Path) -> io::Result<u64> {
        self.inner.get_file_size(path)
    }
    fn is_dir(&self, path: &Path) -> io::Result<bool> {
        self.inner.is_dir(path)
    }
    fn lock_file(&self, path: &Path) -> io::Result<FileLock> {
        self.inner.lock_file(path)
    }
}

#[test]
fn an_open_that_races_with_the_end_of_destroy_database_does_not_exclude_later_opens() {
    let scratch =
        std::env::temp_dir().join(format!("raindb_c17_baseline_{}", std::process::id()));
    let _ = std::fs::remove_dir_all(&scratch);
    std::fs::create_dir_all(&scratch).unwrap();
    let db_path = scratch.join("db").to_str().unwrap().to_owned();

    let plain_fs: Arc<dyn FileSystem> = Arc::new(OsFileSystem::new());
    let plain_options = {
        let db_path = db_path.clone();
        move || DbOptions {
            filesystem_provider: Arc::clone(&plain_fs),
            db_path: db_path.clone(),
            create_if_missing: true,
            ..DbOptions::default()
        }
    };

    {
        let db = DB::open(plain_options()).unwrap();
        db.put(WriteOptions::default(), b"k".to_vec(), b"v".to_vec())
            .unwrap();
    }

    // The contender that shows up between "unlock" and "unlink LOCK" inside destroy_database
    let racing_owner: Arc<Mutex<Option<DB>>> = Arc::new(Mutex::new(None));
    let hook: Hook = {
        let racing_owner = Arc::clone(&racing_owner);
        let options = plain_options();
        Box::new(move || {
            // Unrepaired code: the lock was released before the unlink, so this open succeeds.
            // Repaired code: the lock is still held here and the open is refused, which is correct.
            *racing_owner.lock().unwrap() = DB::open(options).ok();
        })
    };
    let hooked_fs: Arc<dyn FileSystem> = Arc::new(HookedFs {
        inner: OsFileSystem::new(),
        before_lock_file_removal: Mutex::new(Some(hook)),
    });

    let destroy_result = DB::destroy_database(DbOptions {
        filesystem_provider: hooked_fs,
        db_path: db_path.clone(),
        ..DbOptions::default()
    });
    println!("destroy_database returned {destroy_result:?}");

    let first_owner = racing_owner.lock().unwrap().take();
    // If the racing open succeeded, `first_owner` is open and nobody else may open the database now.
    let second_owner = DB::open(plain_options());
    let two_owners = first_owner.is_some() && second_owner.is_ok();
    drop(second_owner);
    drop(first_owner);
    let _ = std::fs::remove_dir_all(&scratch);

    assert!(
        !two_owners,
        "a second DB::open succeeded while the instance opened during destroy_database is still \
        open: the LOCK file it holds was unlinked by destroy_database"
    );
}
