//! D12 (second part): a backward scan that leaves a level through its first table dropped that table iterator without
//! keeping its status, so a damaged block met by prev() in the first (or only) table of a level went unreported.
//!
//! A table file that sits alone (or last) in a level >= 1 gets one byte of a later data block
//! flipped on disk. A forward scan over the reopened database must either fail (a seek error or a
//! `status()` error once the iterator stops) or return exactly what was written.

use std::collections::BTreeMap;
use std::fs;
use std::path::{Path, PathBuf};

use raindb::{DbOptions, RainDbIterator, ReadOptions, WriteOptions, DB};

const NUM_KEYS: usize = 300;

fn key(idx: usize) -> Vec<u8> {
    format!("key{idx:05}").into_bytes()
}

fn value(generation: usize, idx: usize) -> Vec<u8> {
    // Poorly compressible so that data blocks stay close to the configured block size
    let mut val = format!("gen{generation}-{idx:05}-").into_bytes();
    let mut state: u32 = (idx as u32).wrapping_mul(2654435761).wrapping_add(generation as u32);
    for _ in 0..40 {
        state = state.wrapping_mul(1664525).wrapping_add(1013904223);
        val.push(b'a' + ((state >> 24) % 26) as u8);
    }
    val
}

fn options(db_path: &Path) -> DbOptions {
    DbOptions {
        db_path: db_path.to_str().unwrap().to_owned(),
        max_block_size: 512,
        create_if_missing: true,
        ..DbOptions::default()
    }
}

/// Flush the memtable without compacting any table files (no table file overlaps the range).
fn flush(db: &DB) {
    db.compact_range(Some("zzzz".as_bytes())..None);
}

fn table_files(db_path: &Path) -> Vec<PathBuf> {
    let mut files: Vec<PathBuf> = fs::read_dir(db_path.join("data"))
        .unwrap()
        .map(|entry| entry.unwrap().path())
        .collect();
    files.sort_by_key(|path| {
        path.file_stem()
            .unwrap()
            .to_str()
            .unwrap()
            .parse::<u64>()
            .unwrap()
    });
    files
}

fn files_per_level(db: &DB) -> Vec<usize> {
    (0..7)
        .map(|level| {
            db.get_descriptor(raindb::db::DatabaseDescriptor::NumFilesAtLevel(level))
                .unwrap()
                .parse::<usize>()
                .unwrap()
        })
        .collect()
}

/// Scan the whole database. Returns `Err` if the scan reported a problem.
fn scan(db: &DB) -> Result<BTreeMap<Vec<u8>, Vec<u8>>, String> {
    let mut entries = BTreeMap::new();
    let mut iter = db
        .new_iterator(ReadOptions::default())
        .map_err(|err| format!("new_iterator: {err}"))?;
    iter.seek_to_last()
        .map_err(|err| format!("seek_to_last: {err}"))?;
    while iter.is_valid() {
        let (curr_key, curr_val) = iter.current().unwrap();
        entries.insert(curr_key.clone(), curr_val.clone());
        iter.prev();
    }
    if let Some(err) = iter.status() {
        return Err(format!("status: {err}"));
    }

    Ok(entries)
}

#[test]
fn corrupted_block_in_the_first_table_of_a_level_is_reported_by_a_backward_scan() {
    let tmp_dir = tempfile::tempdir().unwrap();
    let db_path = tmp_dir.path().join("d12b_backward_scan");

    // The state that a correct scan must return
    let mut expected: BTreeMap<Vec<u8>, Vec<u8>> = BTreeMap::new();
    {
        let db = DB::open(options(&db_path)).unwrap();

        // Generation 1 ends up in a table file at the deepest level a flush can reach
        for idx in 0..NUM_KEYS {
            db.put(WriteOptions::default(), key(idx), value(1, idx))
                .unwrap();
            expected.insert(key(idx), value(1, idx));
        }
        flush(&db);

        // Generation 2 overwrites one half of the keys and deletes the other half. The flush puts
        // the new table one level above the first table because the key ranges overlap.
        for idx in 0..NUM_KEYS {
            if idx % 2 == 0 {
                db.put(WriteOptions::default(), key(idx), value(2, idx))
                    .unwrap();
                expected.insert(key(idx), value(2, idx));
            } else {
                db.delete(WriteOptions::default(), key(idx)).unwrap();
                expected.remove(&key(idx));
            }
        }
        flush(&db);

        let levels = files_per_level(&db);
        println!("files per level before the corruption: {levels:?}");
        assert_eq!(levels[0], 0, "the demo needs both tables below level 0");
        assert_eq!(levels.iter().sum::<usize>(), 2);

        assert_eq!(scan(&db).unwrap(), expected, "sanity check before the corruption");
    }

    // The newer table is the one with the larger file number. Flip one bit in the middle of the
    // file, which is far inside the data blocks and well past the first block.
    let tables = table_files(&db_path);
    assert_eq!(tables.len(), 2);
    let newer_table = tables.last().unwrap();
    let mut contents = fs::read(newer_table).unwrap();
    let offset = contents.len() / 2;
    contents[offset] ^= 0x01;
    fs::write(newer_table, &contents).unwrap();
    println!(
        "flipped one bit at offset {offset} of {newer_table:?} ({} bytes)",
        contents.len()
    );

    let db = match DB::open(options(&db_path)) {
        Ok(db) => db,
        Err(err) => {
            println!("open failed, which is an acceptable outcome: {err}");
            return;
        }
    };

    match scan(&db) {
        Err(err) => println!("the scan reported the damage: {err}"),
        Ok(actual) => {
            let resurrected: Vec<String> = actual
                .iter()
                .filter(|(k, v)| expected.get(*k) != Some(*v))
                .map(|(k, v)| {
                    format!(
                        "{}={}",
                        String::from_utf8_lossy(k),
                        String::from_utf8_lossy(&v[..10])
                    )
                })
                .collect();
            let missing = expected.keys().filter(|k| !actual.contains_key(*k)).count();
            assert!(
                actual == expected,
                "the scan ended without any error but returned wrong data: {} stale or deleted \
                entries came back (e.g. {:?}), {} entries are missing",
                resurrected.len(),
                resurrected.iter().take(3).collect::<Vec<_>>(),
                missing
            );
        }
    }
}
