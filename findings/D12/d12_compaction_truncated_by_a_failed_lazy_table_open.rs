//! NOT a demonstration of a mutation: this test fails on the UNMODIFIED code base.
//!
//! A table compaction merges a level-1 file with three level-2 files. The level-2 files are read
//! through a concatenating iterator (`FilesEntryIterator`) that opens the next table file lazily
//! inside `next()`. `next()` has no error channel: a failure to open the next file is logged and the
//! iterator just becomes invalid, which the compaction takes for the end of its input. The
//! compaction result is installed and the input files are deleted, so every entry of the files that
//! were never read is lost. No error is reported and the database does not enter its error state.
//!
//! Copy this file to `tests/` and run with:
//! `cargo test --offline --test c08_baseline_compaction_lazy_open -- --nocapture`

use std::collections::HashMap;
use std::io::{self, Read, Seek, SeekFrom, Write};
use std::path::{Path, PathBuf};
use std::sync::atomic::{AtomicBool, AtomicUsize, Ordering};
use std::sync::{Arc, Mutex};

use raindb::db::DatabaseDescriptor;
use raindb::fs::{
    FileLock, FileSystem, InMemoryFileSystem, RandomAccessFile, ReadonlyRandomAccessFile,
};
use raindb::{DbOptions, RainDbIterator, ReadOptions, WriteOptions, DB};

// ---------------------------------------------------------------------------------------------
// Test-only scaffolding: a file system wrapper that can inject faults
// ---------------------------------------------------------------------------------------------

/// The kinds of file system calls that a fault can be injected into.
#[derive(Clone, Copy, Debug, PartialEq, Eq)]
#[allow(dead_code)]
enum Op {
    Create,
    Write,
    Append,
    Rename,
    Remove,
    OpenRead,
    Size,
}

type Matcher = Box<dyn Fn(Op, &Path, &[u8]) -> bool + Send + Sync>;

/// State shared by the file system wrapper and the file handles it gives out.
struct FaultState {
    /// Faults are only injected while this is set.
    armed: AtomicBool,
    /// If true, every call after the first injected fault fails as well.
    sticky: bool,
    /// Set once the first fault was injected.
    tripped: AtomicBool,
    /// The number of calls that were failed.
    injected: AtomicUsize,
    /// Picks the call to fail.
    matcher: Matcher,
    /// The number of bytes in each file that was created through the wrapper.
    file_lengths: Mutex<HashMap<PathBuf, u64>>,
}

impl FaultState {
    fn should_fail(&self, op: Op, path: &Path, buf: &[u8]) -> bool {
        if !self.armed.load(Ordering::SeqCst) {
            return false;
        }

        if self.sticky && self.tripped.load(Ordering::SeqCst) {
            self.injected.fetch_add(1, Ordering::SeqCst);
            return true;
        }

        if (self.matcher)(op, path, buf) {
            self.tripped.store(true, Ordering::SeqCst);
            if !self.sticky {
                // A transient fault hits exactly one call
                self.armed.store(false, Ordering::SeqCst);
            }
            self.injected.fetch_add(1, Ordering::SeqCst);
            return true;
        }

        false
    }

    fn injected_error(op: Op, path: &Path) -> io::Error {
        io::Error::new(
            io::ErrorKind::Other,
            format!("injected fault: {:?} on {:?}", op, path),
        )
    }
}

/// A file system that delegates to an inner file system and fails the calls picked by a matcher.
struct FaultFs {
    inner: Arc<dyn FileSystem>,
    state: Arc<FaultState>,
}

impl FaultFs {
    fn new(inner: Arc<dyn FileSystem>, sticky: bool, matcher: Matcher) -> Self {
        FaultFs {
            inner,
            state: Arc::new(FaultState {
                armed: AtomicBool::new(false),
                sticky,
                tripped: AtomicBool::new(false),
                injected: AtomicUsize::new(0),
                matcher,
                file_lengths: Mutex::new(HashMap::new()),
            }),
        }
    }

    fn arm(&self) {
        self.state.armed.store(true, Ordering::SeqCst);
    }

    fn disarm(&self) {
        self.state.armed.store(false, Ordering::SeqCst);
    }

    fn num_injected(&self) -> usize {
        self.state.injected.load(Ordering::SeqCst)
    }

    /// Returns the path and the length of the write-ahead log with the greatest file number.
    fn newest_wal(&self) -> (PathBuf, u64) {
        let lengths = self.state.file_lengths.lock().unwrap();
        lengths
            .iter()
            .filter(|(path, _)| is_wal(path))
            .max_by_key(|(path, _)| wal_number(path))
            .map(|(path, len)| (path.clone(), *len))
            .expect("a write-ahead log should have been created")
    }
}

fn is_wal(path: &Path) -> bool {
    path.extension().map_or(false, |ext| ext == "log")
}

fn wal_number(path: &Path) -> u64 {
    path.file_stem()
        .and_then(|stem| stem.to_str())
        .and_then(|stem| stem.strip_prefix("wal-"))
        .and_then(|num| num.parse::<u64>().ok())
        .unwrap_or(0)
}

impl FileSystem for FaultFs {
    fn get_name(&self) -> String {
        "FaultFs".to_string()
    }

    fn create_dir(&self, path: &Path) -> io::Result<()> {
        self.inner.create_dir(path)
    }

    fn create_dir_all(&self, path: &Path) -> io::Result<()> {
        self.inner.create_dir_all(path)
    }

    fn list_dir(&self, path: &Path) -> io::Result<Vec<PathBuf>> {
        self.inner.list_dir(path)
    }

    fn open_file(&self, path: &Path) -> io::Result<Box<dyn ReadonlyRandomAccessFile>> {
        if self.state.should_fail(Op::OpenRead, path, &[]) {
            return Err(FaultState::injected_error(Op::OpenRead, path));
        }

        let inner = self.inner.open_file(path)?;
        Ok(Box::new(FaultReadonlyFile {
            inner,
            path: path.to_path_buf(),
            state: Arc::clone(&self.state),
        }))
    }

    fn rename(&self, from: &Path, to: &Path) -> io::Result<()> {
        if self.state.should_fail(Op::Rename, from, &[]) {
            return Err(FaultState::injected_error(Op::Rename, from));
        }

        self.inner.rename(from, to)
    }

    fn create_file(&self, path: &Path, append: bool) -> io::Result<Box<dyn RandomAccessFile>> {
        if self.state.should_fail(Op::Create, path, &[]) {
            return Err(FaultState::injected_error(Op::Create, path));
        }

        let inner = self.inner.create_file(path, append)?;
        let starting_length = if append { inner.len()? } else { 0 };
        self.state
            .file_lengths
            .lock()
            .unwrap()
            .insert(path.to_path_buf(), starting_length);

        Ok(Box::new(FaultFile {
            inner,
            path: path.to_path_buf(),
            state: Arc::clone(&self.state),
        }))
    }

    fn remove_file(&self, path: &Path) -> io::Result<()> {
        if self.state.should_fail(Op::Remove, path, &[]) {
            return Err(FaultState::injected_error(Op::Remove, path));
        }

        self.inner.remove_file(path)
    }

    fn remove_dir(&self, path: &Path) -> io::Result<()> {
        self.inner.remove_dir(path)
    }

    fn remove_dir_all(&self, path: &Path) -> io::Result<()> {
        self.inner.remove_dir_all(path)
    }

    fn get_file_size(&self, path: &Path) -> io::Result<u64> {
        if self.state.should_fail(Op::Size, path, &[]) {
            return Err(FaultState::injected_error(Op::Size, path));
        }

        self.inner.get_file_size(path)
    }

    fn is_dir(&self, path: &Path) -> io::Result<bool> {
        self.inner.is_dir(path)
    }

    fn lock_file(&self, path: &Path) -> io::Result<FileLock> {
        self.inner.lock_file(path)
    }
}

/// A writable file handle that can fail writes, appends and size queries.
struct FaultFile {
    inner: Box<dyn RandomAccessFile>,
    path: PathBuf,
    state: Arc<FaultState>,
}

impl FaultFile {
    fn record_written(&self, num_bytes: usize) {
        let mut lengths = self.state.file_lengths.lock().unwrap();
        *lengths.entry(self.path.clone()).or_insert(0) += num_bytes as u64;
    }
}

impl Read for FaultFile {
    fn read(&mut self, buf: &mut [u8]) -> io::Result<usize> {
        self.inner.read(buf)
    }

    fn read_to_end(&mut self, buf: &mut Vec<u8>) -> io::Result<usize> {
        self.inner.read_to_end(buf)
    }

    fn read_to_string(&mut self, buf: &mut String) -> io::Result<usize> {
        self.inner.read_to_string(buf)
    }
}

impl Seek for FaultFile {
    fn seek(&mut self, pos: SeekFrom) -> io::Result<u64> {
        self.inner.seek(pos)
    }
}

impl Write for FaultFile {
    fn write(&mut self, buf: &[u8]) -> io::Result<usize> {
        if self.state.should_fail(Op::Write, &self.path, buf) {
            return Err(FaultState::injected_error(Op::Write, &self.path));
        }

        let bytes_written = self.inner.write(buf)?;
        self.record_written(bytes_written);

        Ok(bytes_written)
    }

    fn flush(&mut self) -> io::Result<()> {
        self.inner.flush()
    }
}

impl ReadonlyRandomAccessFile for FaultFile {
    fn read_from(&self, buf: &mut [u8], offset: usize) -> io::Result<usize> {
        self.inner.read_from(buf, offset)
    }

    fn len(&self) -> io::Result<u64> {
        if self.state.should_fail(Op::Size, &self.path, &[]) {
            return Err(FaultState::injected_error(Op::Size, &self.path));
        }

        self.inner.len()
    }
}

impl RandomAccessFile for FaultFile {
    fn append(&mut self, buf: &[u8]) -> io::Result<usize> {
        if self.state.should_fail(Op::Append, &self.path, buf) {
            return Err(FaultState::injected_error(Op::Append, &self.path));
        }

        let bytes_written = self.inner.append(buf)?;
        self.record_written(bytes_written);

        Ok(bytes_written)
    }
}

/// A read-only file handle that can fail size queries.
struct FaultReadonlyFile {
    inner: Box<dyn ReadonlyRandomAccessFile>,
    path: PathBuf,
    state: Arc<FaultState>,
}

impl Read for FaultReadonlyFile {
    fn read(&mut self, buf: &mut [u8]) -> io::Result<usize> {
        self.inner.read(buf)
    }

    fn read_to_end(&mut self, buf: &mut Vec<u8>) -> io::Result<usize> {
        self.inner.read_to_end(buf)
    }

    fn read_to_string(&mut self, buf: &mut String) -> io::Result<usize> {
        self.inner.read_to_string(buf)
    }
}

impl Seek for FaultReadonlyFile {
    fn seek(&mut self, pos: SeekFrom) -> io::Result<u64> {
        self.inner.seek(pos)
    }
}

impl ReadonlyRandomAccessFile for FaultReadonlyFile {
    fn read_from(&self, buf: &mut [u8], offset: usize) -> io::Result<usize> {
        self.inner.read_from(buf, offset)
    }

    fn len(&self) -> io::Result<u64> {
        if self.state.should_fail(Op::Size, &self.path, &[]) {
            return Err(FaultState::injected_error(Op::Size, &self.path));
        }

        self.inner.len()
    }
}


const DB_PATH: &str = "/c08_baseline_finding";

fn options(fs: Arc<dyn FileSystem>) -> DbOptions {
    DbOptions {
        filesystem_provider: fs,
        create_if_missing: true,
        db_path: DB_PATH.to_string(),
        ..DbOptions::default()
    }
}

fn is_table_file(path: &Path) -> bool {
    path.extension().map_or(false, |ext| ext == "rdb")
}

fn table_number(path: &Path) -> u64 {
    path.file_stem()
        .and_then(|stem| stem.to_str())
        .and_then(|stem| stem.parse::<u64>().ok())
        .unwrap()
}

fn files_per_level(db: &DB) -> Vec<usize> {
    (0..7)
        .map(|level| {
            db.get_descriptor(DatabaseDescriptor::NumFilesAtLevel(level))
                .unwrap()
                .parse::<usize>()
                .unwrap()
        })
        .collect()
}

#[test]
fn a_compaction_that_cannot_open_its_next_input_file_does_not_lose_the_rest_of_the_input() {
    let mem_fs: Arc<dyn FileSystem> = Arc::new(InMemoryFileSystem::new());
    let target: Arc<Mutex<Option<PathBuf>>> = Arc::new(Mutex::new(None));
    let matcher_target = Arc::clone(&target);
    // Fail the next attempt to open the targeted table file for reading
    let fault_fs = Arc::new(FaultFs::new(
        Arc::clone(&mem_fs),
        false,
        Box::new(move |op, path, _buf| {
            op == Op::OpenRead && Some(path.to_path_buf()) == *matcher_target.lock().unwrap()
        }),
    ));
    let fs: Arc<dyn FileSystem> = fault_fs.clone();

    let mut acknowledged: Vec<(Vec<u8>, Vec<u8>)> = vec![];
    {
        // Three table files with disjoint key ranges end up on level 2
        let db = DB::open(options(Arc::clone(&fs))).unwrap();
        for user_key in ["apple", "mango", "zucchini"] {
            let value = format!("{user_key}-value").into_bytes();
            db.put(
                WriteOptions::default(),
                user_key.as_bytes().to_vec(),
                value.clone(),
            )
            .unwrap();
            acknowledged.push((user_key.as_bytes().to_vec(), value));
            db.compact_range(None..None);
        }
        assert_eq!(files_per_level(&db), vec![0, 0, 3, 0, 0, 0, 0]);
    }

    // Target the table file that holds "mango"
    let mut tables: Vec<PathBuf> = mem_fs
        .list_dir(&Path::new(DB_PATH).join("data"))
        .unwrap()
        .into_iter()
        .filter(|path| is_table_file(path))
        .collect();
    tables.sort_by_key(|path| table_number(path));
    assert_eq!(tables.len(), 3);
    *target.lock().unwrap() = Some(tables[1].clone());

    // Reopen the database so that no table file is open yet
    let db = DB::open(options(Arc::clone(&fs))).unwrap();
    for user_key in ["aaa", "zzz"] {
        let value = format!("{user_key}-value").into_bytes();
        db.put(
            WriteOptions::default(),
            user_key.as_bytes().to_vec(),
            value.clone(),
        )
        .unwrap();
        acknowledged.push((user_key.as_bytes().to_vec(), value));
    }

    // The memtable is flushed to level 1 and then compacted with the three files on level 2
    fault_fs.arm();
    db.compact_range(None..None);
    fault_fs.disarm();
    assert_eq!(fault_fs.num_injected(), 1);
    println!("files per level after the compaction: {:?}", files_per_level(&db));

    let mut violations: Vec<String> = vec![];
    for (user_key, expected_value) in &acknowledged {
        match db.get(ReadOptions::default(), user_key) {
            Ok(actual) if &actual == expected_value => {}
            // Reads are allowed to fail with an error but not with "not found"
            Err(err) if err != raindb::RainDBError::KeyNotFound => {}
            other => violations.push(format!(
                "{} -> {:?}",
                String::from_utf8_lossy(user_key),
                other.map(|val| String::from_utf8_lossy(&val).to_string())
            )),
        }
    }
    println!(
        "a write after the compaction returned {:?}",
        db.put(WriteOptions::default(), b"later".to_vec(), b"later".to_vec())
    );
    drop(db);

    let db = DB::open(options(Arc::clone(&fs))).unwrap();
    for (user_key, expected_value) in &acknowledged {
        match db.get(ReadOptions::default(), user_key) {
            Ok(actual) if &actual == expected_value => {}
            other => violations.push(format!(
                "after reopening: {} -> {:?}",
                String::from_utf8_lossy(user_key),
                other.map(|val| String::from_utf8_lossy(&val).to_string())
            )),
        }
    }

    assert!(
        violations.is_empty(),
        "Acknowledged writes were lost without any error: {:?}",
        violations
    );
}
