//! Probe D29: does `drop(db)` hang when a compaction is scheduled while the compaction thread is
//! between the end of its inner task loop and its `is_shutting_down` check?
//!
//! Suspected interleaving (from reading `CompactionWorker::new` and `Drop for DB`):
//!
//! 1. The compaction thread finishes a task, drains the (empty) channel and leaves the inner
//!    `while !task_queue.is_empty()` loop.
//! 2. A client write rotates the memtable: `background_compaction_scheduled = true` and a
//!    `Compaction` task is sent. The write returns and the client drops the database:
//!    `is_shutting_down = true`, `Drop` waits for `background_compaction_scheduled == false`.
//! 3. The compaction thread evaluates `is_shutting_down`, sees `true` and exits without ever
//!    receiving the queued task. Nobody clears the flag; `drop(db)` never returns.
//!
//! The probe uses the public API only. It runs open / few puts / drop cycles on the in-memory file
//! system with a tiny `max_memtable_size` (so that nearly every put rotates the memtable, and from
//! the third put on a writer is woken by the compaction thread right before that thread leaves its
//! inner loop). A watchdog on the test thread detects a cycle that makes no progress for
//! `D29_HANG_SECS` seconds.
//!
//! Environment:
//!
//! - `D29_SECS`      stress duration in seconds (default 60)
//! - `D29_THREADS`   number of parallel driver threads, each with its own database (default 16)
//! - `D29_HANG_SECS` watchdog timeout (default 10)
//! - `D29_SEED`      seed of the per-driver parameter generator (default 1)
//!
//! - `D29_ASSIST`    1 = "assisted" mode (default 0, blind stress), see below
//! - `D29_SWEEP_NS`  assisted mode: the stall starts 1..=D29_SWEEP_NS ns after the hook (default 3000)
//! - `D29_STALL_US`  assisted mode: length of the stall in microseconds (default 150)
//! - `D29_HOLD_SECS`  keep the process alive for this long after a hang was reported (default 0)
//!
//! Pinning the process onto few CPUs (`taskset -c 0 ...`) widens the window: the compaction thread
//! is then likely to be preempted by the writer it has just woken.
//!
//! # Assisted mode
//!
//! The window is a handful of instructions wide, so blind stress needs the scheduler to preempt the
//! compaction thread exactly there. The assisted mode emulates such a preemption from the outside,
//! without touching the crate: a `log::Log` implementation (the crate logs through the `log` facade)
//! sees the last message of `CompactionWorker::compaction_task` ("No follow-up compaction work
//! detected.") ON the compaction thread and arms a one-shot POSIX timer that delivers `SIGUSR1` to
//! that very thread a random 1..=D29_SWEEP_NS nanoseconds later. The signal handler only sleeps
//! (`nanosleep`), i.e. the compaction thread is descheduled for D29_STALL_US microseconds at a
//! random point shortly after it returned from `compaction_task` - something the OS scheduler is
//! free to do at any time. No raindb state is touched by the hook.

use std::fs;
use std::sync::atomic::{AtomicBool, AtomicU64, Ordering};
use std::sync::Arc;
use std::thread;
use std::time::{Duration, Instant};

use raindb::fs::{FileSystem, InMemoryFileSystem};
use raindb::{DbOptions, ReadOptions, WriteOptions, DB};

/// Emulated preemption of the compaction thread (assisted mode). Linux x86_64 only.
mod stall {
    use std::cell::RefCell;
    use std::sync::atomic::{AtomicU64, Ordering};

    const SYS_GETTID: i64 = 186;
    const SYS_TIMER_CREATE: i64 = 222;
    const SYS_TIMER_SETTIME: i64 = 223;
    const SYS_TIMER_DELETE: i64 = 226;
    const CLOCK_MONOTONIC: i64 = 1;
    const SIGUSR1: i32 = 10;
    const SIGEV_THREAD_ID: i32 = 4;

    #[repr(C)]
    struct Timespec {
        sec: i64,
        nsec: i64,
    }

    #[repr(C)]
    struct Itimerspec {
        interval: Timespec,
        value: Timespec,
    }

    /// `struct sigevent` of Linux x86_64 (64 bytes).
    #[repr(C)]
    struct SigEvent {
        value: usize,
        signo: i32,
        notify: i32,
        tid: i32,
        pad: [i32; 11],
    }

    extern "C" {
        fn syscall(num: i64, ...) -> i64;
        fn signal(signum: i32, handler: usize) -> usize;
        fn nanosleep(req: *const Timespec, rem: *mut Timespec) -> i32;
        fn __errno_location() -> *mut i32;
    }

    pub static SWEEP_NS: AtomicU64 = AtomicU64::new(3000);
    pub static STALL_US: AtomicU64 = AtomicU64::new(150);
    /// Number of timers armed / signals handled, for the final report.
    pub static ARMED: AtomicU64 = AtomicU64::new(0);
    pub static STALLS: AtomicU64 = AtomicU64::new(0);

    extern "C" fn on_signal(_signum: i32) {
        // Only async-signal-safe calls: the thread just sleeps
        unsafe {
            let saved_errno = *__errno_location();
            let req = Timespec {
                sec: 0,
                nsec: (STALL_US.load(Ordering::Relaxed) * 1000) as i64,
            };
            nanosleep(&req, std::ptr::null_mut());
            *__errno_location() = saved_errno;
        }
        STALLS.fetch_add(1, Ordering::Relaxed);
    }

    pub fn install_handler() {
        unsafe {
            // glibc's `signal` has BSD semantics (SA_RESTART)
            signal(SIGUSR1, on_signal as *const () as usize);
        }
    }

    /// A per-thread one-shot timer that signals its own thread.
    struct ThreadTimer {
        timer_id: i32,
        rng: u64,
    }

    impl ThreadTimer {
        fn new() -> Option<ThreadTimer> {
            unsafe {
                let tid = syscall(SYS_GETTID) as i32;
                let mut event = SigEvent {
                    value: 0,
                    signo: SIGUSR1,
                    notify: SIGEV_THREAD_ID,
                    tid,
                    pad: [0; 11],
                };
                let mut timer_id: i32 = 0;
                let rc = syscall(
                    SYS_TIMER_CREATE,
                    CLOCK_MONOTONIC,
                    &mut event as *mut SigEvent,
                    &mut timer_id as *mut i32,
                );
                if rc != 0 {
                    return None;
                }
                Some(ThreadTimer {
                    timer_id,
                    rng: (tid as u64).wrapping_mul(0x9E37_79B9_7F4A_7C15) | 1,
                })
            }
        }

        fn arm(&mut self) {
            self.rng ^= self.rng >> 12;
            self.rng ^= self.rng << 25;
            self.rng ^= self.rng >> 27;
            let r = self.rng.wrapping_mul(0x2545_F491_4F6C_DD1D) >> 33;
            let delay = 1 + r % SWEEP_NS.load(Ordering::Relaxed).max(1);
            let spec = Itimerspec {
                interval: Timespec { sec: 0, nsec: 0 },
                value: Timespec {
                    sec: 0,
                    nsec: delay as i64,
                },
            };
            unsafe {
                syscall(
                    SYS_TIMER_SETTIME,
                    self.timer_id as i64,
                    0i64,
                    &spec as *const Itimerspec,
                    0usize,
                );
            }
            ARMED.fetch_add(1, Ordering::Relaxed);
        }
    }

    impl Drop for ThreadTimer {
        fn drop(&mut self) {
            unsafe {
                syscall(SYS_TIMER_DELETE, self.timer_id as i64);
            }
        }
    }

    thread_local! {
        static TIMER: RefCell<Option<ThreadTimer>> = RefCell::new(None);
    }

    /// Deschedule the calling thread for a while, starting a random short time from now.
    pub fn stall_me_soon() {
        let _ = TIMER.try_with(|cell| {
            let mut timer = cell.borrow_mut();
            if timer.is_none() {
                *timer = ThreadTimer::new();
            }
            if let Some(timer) = timer.as_mut() {
                timer.arm();
            }
        });
    }
}

/// Sees the log messages of the crate on the thread that emits them.
struct HookLogger;

impl log::Log for HookLogger {
    fn enabled(&self, metadata: &log::Metadata) -> bool {
        metadata.level() == log::Level::Debug
    }

    fn log(&self, record: &log::Record) {
        if record.level() != log::Level::Debug {
            return;
        }
        // The last statement of `CompactionWorker::compaction_task` before it returns `false`
        if record
            .args()
            .as_str()
            .map_or(false, |msg| msg.starts_with("No follow-up compaction work"))
        {
            stall::stall_me_soon();
        }
    }

    fn flush(&self) {}
}

static HOOK_LOGGER: HookLogger = HookLogger;

const PHASE_IDLE: u64 = 0;
const PHASE_OPEN: u64 = 1;
const PHASE_PUTS: u64 = 2;
const PHASE_DROP: u64 = 3;

/// Progress of one driver thread, read by the watchdog.
#[derive(Default)]
struct Slot {
    /// Number of completed open/close cycles.
    cycles: AtomicU64,
    /// Phase of the cycle in progress.
    phase: AtomicU64,
    /// Packed parameters of the cycle in progress (see `Params::pack`).
    params: AtomicU64,
    /// The driver has returned.
    done: AtomicBool,
}

#[derive(Clone, Copy, Debug)]
struct Params {
    /// Number of puts of each writer.
    puts: u64,
    /// Number of writer threads. 1 = the driver itself writes and drops.
    writers: u64,
    /// Length of the values.
    value_len: u64,
    /// `max_memtable_size`.
    memtable: u64,
    /// What happens between the last put and the drop:
    /// 0 = nothing, 1 = `yield_now`, 2 = spin, 3 = sleep of a few microseconds.
    pre_drop: u64,
    /// Amount for `pre_drop` (spin iterations / microseconds).
    pre_drop_amount: u64,
    /// Number of gets (of a missing key) after the puts.
    gets: u64,
    /// `yield_now` between the puts.
    yield_between_puts: u64,
}

impl Params {
    fn pack(&self) -> u64 {
        self.puts
            | self.writers << 8
            | self.value_len << 12
            | self.memtable << 24
            | self.pre_drop << 40
            | self.pre_drop_amount << 44
            | self.gets << 52
            | self.yield_between_puts << 62
    }

    fn unpack(v: u64) -> Params {
        Params {
            puts: v & 0xff,
            writers: (v >> 8) & 0xf,
            value_len: (v >> 12) & 0xfff,
            memtable: (v >> 24) & 0xffff,
            pre_drop: (v >> 40) & 0xf,
            pre_drop_amount: (v >> 44) & 0xff,
            gets: (v >> 52) & 0x3ff,
            yield_between_puts: (v >> 62) & 0x1,
        }
    }
}

struct Rng(u64);

impl Rng {
    fn next(&mut self) -> u64 {
        // xorshift64*
        self.0 ^= self.0 >> 12;
        self.0 ^= self.0 << 25;
        self.0 ^= self.0 >> 27;
        self.0.wrapping_mul(0x2545_F491_4F6C_DD1D)
    }

    fn below(&mut self, n: u64) -> u64 {
        (self.next() >> 33) % n
    }
}

fn pick_params(rng: &mut Rng) -> Params {
    let writers = match rng.below(10) {
        0..=6 => 1,
        7..=8 => 2,
        _ => 3,
    };
    let pre_drop = match rng.below(10) {
        0..=5 => 0,
        6 => 1,
        7..=8 => 2,
        _ => 3,
    };
    Params {
        puts: 1 + rng.below(12),
        writers,
        value_len: [16, 100, 400, 1500][rng.below(4) as usize],
        memtable: [1, 64, 512, 2048][rng.below(4) as usize],
        pre_drop,
        pre_drop_amount: match pre_drop {
            2 => 1 + rng.below(200),
            3 => 1 + rng.below(50),
            _ => 0,
        },
        gets: if rng.below(8) == 0 { rng.below(300) } else { 0 },
        yield_between_puts: (rng.below(6) == 0) as u64,
    }
}

fn env_u64(name: &str, default: u64) -> u64 {
    std::env::var(name)
        .ok()
        .and_then(|v| v.parse().ok())
        .unwrap_or(default)
}

fn write_some(db: &DB, writer: u64, params: &Params, value: &[u8]) {
    for i in 0..params.puts {
        let key = format!("w{writer}-key{i:04}").into_bytes();
        db.put(WriteOptions::default(), key, value.to_vec())
            .expect("put");
        if params.yield_between_puts == 1 {
            thread::yield_now();
        }
    }
    for i in 0..params.gets {
        // Lookups that miss: they charge seeks to the files they had to consult
        let key = format!("w{writer}-key{:04}x", i % params.puts.max(1));
        let _ = db.get(ReadOptions::default(), key.as_bytes());
    }
}

fn pre_drop(params: &Params) {
    match params.pre_drop {
        1 => thread::yield_now(),
        2 => {
            for _ in 0..params.pre_drop_amount {
                std::hint::spin_loop();
            }
        }
        3 => thread::sleep(Duration::from_micros(params.pre_drop_amount)),
        _ => {}
    }
}

fn one_cycle(driver: usize, cycle: u64, params: &Params, slot: &Slot, template: &DbOptions) {
    slot.params.store(params.pack(), Ordering::Relaxed);
    slot.phase.store(PHASE_OPEN, Ordering::Release);

    // A fresh file system per cycle, so the cycles are independent of each other
    let fs: Arc<dyn FileSystem> = Arc::new(InMemoryFileSystem::new());
    let db = DB::open(DbOptions {
        db_path: format!("/d29-{driver}-{cycle}"),
        max_memtable_size: params.memtable as usize,
        create_if_missing: true,
        filesystem_provider: fs,
        // `DbOptions::default()` allocates (and zeroes) an 8 MiB block cache, which dominated the
        // cycle time. The cache is designed to be shared, so the driver reuses one instance.
        block_cache: Arc::clone(&template.block_cache),
        filter_policy: Arc::clone(&template.filter_policy),
        max_file_size: template.max_file_size,
        max_block_size: template.max_block_size,
        error_if_exists: false,
        reuse_log_files: true,
    })
    .expect("open");
    let value = vec![b'v'; params.value_len as usize];

    slot.phase.store(PHASE_PUTS, Ordering::Release);
    if params.writers == 1 {
        write_some(&db, 0, params, &value);
        pre_drop(params);
        slot.phase.store(PHASE_DROP, Ordering::Release);
        drop(db);
    } else {
        // Every writer owns a reference. Whoever finishes last drops the database right after its
        // own last operation.
        let db = Arc::new(db);
        let handles: Vec<_> = (0..params.writers)
            .map(|writer| {
                let db = Arc::clone(&db);
                let params = *params;
                let value = value.clone();
                thread::spawn(move || {
                    write_some(&db, writer, &params, &value);
                    pre_drop(&params);
                    drop(db);
                })
            })
            .collect();
        drop(db);
        slot.phase.store(PHASE_DROP, Ordering::Release);
        for handle in handles {
            handle.join().expect("writer thread");
        }
    }

    slot.phase.store(PHASE_IDLE, Ordering::Release);
    slot.cycles.fetch_add(1, Ordering::Release);
}

/// Number of live threads of this process whose name starts with `raindb-` (compaction threads).
fn live_compaction_threads() -> usize {
    let mut count = 0;
    if let Ok(entries) = fs::read_dir("/proc/self/task") {
        for entry in entries.flatten() {
            if let Ok(comm) = fs::read_to_string(entry.path().join("comm")) {
                if comm.starts_with("raindb-") {
                    count += 1;
                }
            }
        }
    }
    count
}

#[test]
fn d29_drop_returns_when_a_compaction_is_scheduled_right_before_shutdown() {
    let secs = env_u64("D29_SECS", 60);
    let num_drivers = env_u64("D29_THREADS", 16) as usize;
    let hang_secs = env_u64("D29_HANG_SECS", 10);
    let seed = env_u64("D29_SEED", 1);
    let assist = env_u64("D29_ASSIST", 0) == 1;
    if assist {
        stall::SWEEP_NS.store(env_u64("D29_SWEEP_NS", 3000), Ordering::Relaxed);
        stall::STALL_US.store(env_u64("D29_STALL_US", 150), Ordering::Relaxed);
        stall::install_handler();
        log::set_logger(&HOOK_LOGGER).expect("no other logger");
        log::set_max_level(log::LevelFilter::Debug);
    }
    let mode = if assist {
        format!(
            "ASSISTED (stall of {} us starting 1..={} ns after the end of compaction_task)",
            stall::STALL_US.load(Ordering::Relaxed),
            stall::SWEEP_NS.load(Ordering::Relaxed)
        )
    } else {
        "blind".to_string()
    };

    let stop = Arc::new(AtomicBool::new(false));
    let slots: Vec<Arc<Slot>> = (0..num_drivers).map(|_| Arc::new(Slot::default())).collect();

    for (driver, slot) in slots.iter().enumerate() {
        let slot = Arc::clone(slot);
        let stop = Arc::clone(&stop);
        thread::Builder::new()
            .name(format!("d29-driver-{driver}"))
            .spawn(move || {
                let mut rng = Rng(seed
                    .wrapping_mul(0x9E37_79B9_7F4A_7C15)
                    .wrapping_add(driver as u64 + 1)
                    | 1);
                let mut cycle = 0u64;
                let template = DbOptions::default();
                while !stop.load(Ordering::Acquire) {
                    let params = pick_params(&mut rng);
                    one_cycle(driver, cycle, &params, &slot, &template);
                    cycle += 1;
                }
                slot.done.store(true, Ordering::Release);
            })
            .unwrap();
    }

    // Watchdog
    let start = Instant::now();
    let mut last_seen: Vec<(u64, Instant)> = vec![(0, start); num_drivers];
    let mut hung: Option<usize> = None;
    while start.elapsed() < Duration::from_secs(secs) && hung.is_none() {
        thread::sleep(Duration::from_millis(200));
        let now = Instant::now();
        for (driver, slot) in slots.iter().enumerate() {
            let cycles = slot.cycles.load(Ordering::Acquire);
            if cycles != last_seen[driver].0 {
                last_seen[driver] = (cycles, now);
            } else if now - last_seen[driver].1 >= Duration::from_secs(hang_secs) {
                hung = Some(driver);
                break;
            }
        }
    }

    // Let the healthy drivers finish their cycle
    stop.store(true, Ordering::Release);
    let wind_down = Instant::now();
    while wind_down.elapsed() < Duration::from_secs(hang_secs + 2) {
        let pending = slots
            .iter()
            .filter(|slot| !slot.done.load(Ordering::Acquire))
            .count();
        if pending == 0 || (hung.is_some() && wind_down.elapsed() > Duration::from_secs(3)) {
            break;
        }
        thread::sleep(Duration::from_millis(50));
    }

    let total: u64 = slots
        .iter()
        .map(|slot| slot.cycles.load(Ordering::Acquire))
        .sum();
    let stuck: Vec<usize> = slots
        .iter()
        .enumerate()
        .filter(|(_, slot)| !slot.done.load(Ordering::Acquire))
        .map(|(driver, _)| driver)
        .collect();
    let elapsed = start.elapsed().as_secs_f64();

    if stuck.is_empty() {
        println!(
            "D29-RESULT: NO HANG in {total} open/put/drop cycles ({num_drivers} drivers, \
            {elapsed:.1} s, seed {seed}, mode {mode}, timers armed {}, stalls {})",
            stall::ARMED.load(Ordering::Relaxed),
            stall::STALLS.load(Ordering::Relaxed),
        );
        return;
    }

    for driver in &stuck {
        let slot = &slots[*driver];
        let phase = match slot.phase.load(Ordering::Acquire) {
            PHASE_OPEN => "DB::open",
            PHASE_PUTS => "puts/gets",
            PHASE_DROP => "drop(db)",
            _ => "idle",
        };
        println!(
            "D29-HANG: driver {driver} made no progress for {hang_secs} s in phase `{phase}` of its \
            cycle #{} with {:?}; live `raindb-*` compaction threads in the process after all other \
            drivers stopped: {} (0 = the compaction thread of the stuck database has exited); \
            {total} cycles completed by all {num_drivers} drivers in {elapsed:.1} s, seed {seed}, \
            mode {mode}, timers armed {}, stalls {}",
            slot.cycles.load(Ordering::Acquire),
            Params::unpack(slot.params.load(Ordering::Acquire)),
            live_compaction_threads(),
            stall::ARMED.load(Ordering::Relaxed),
            stall::STALLS.load(Ordering::Relaxed),
        );
    }
    // Time to attach a debugger to the stuck process (`D29_HOLD_SECS`, default 0)
    thread::sleep(Duration::from_secs(env_u64("D29_HOLD_SECS", 0)));
    // The stuck threads cannot be joined
    std::process::exit(29);
}
