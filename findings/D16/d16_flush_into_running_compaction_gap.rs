//! Probe (not a mutation demo): does a memtable flush that is serviced in the middle of a
//! multi-file level-1 compaction land inside the key range the compaction is about to write?

use std::collections::HashSet;
use std::io;
use std::path::{Path, PathBuf};
use std::sync::atomic::{AtomicBool, AtomicUsize, Ordering};
use std::sync::mpsc::{self, Receiver, Sender};
use std::sync::{Arc, Mutex};
use std::thread;
use std::time::Duration;

use raindb::db::DatabaseDescriptor;
use raindb::fs::{
    FileLock, FileSystem, InMemoryFileSystem, RandomAccessFile, ReadonlyRandomAccessFile,
};
use raindb::{DbOptions, WriteOptions, DB};

const DB_PATH: &str = "c10_probe";

struct HookFs {
    inner: InMemoryFileSystem,
    armed: AtomicBool,
    fired: AtomicBool,
    wals_created: AtomicUsize,
    reached_tx: Mutex<Sender<PathBuf>>,
    resume_rx: Mutex<Receiver<()>>,
}

fn has_extension(path: &Path, ext: &str) -> bool {
    path.extension().map_or(false, |e| e == ext)
}

impl FileSystem for HookFs {
    fn get_name(&self) -> String {
        "HookFs".to_string()
    }
    fn create_dir(&self, path: &Path) -> io::Result<()> {
        self.inner.create_dir(path)
    }
    fn create_dir_all(&self, path: &Path) -> io::Result<()> {
        self.inner.create_dir_all(path)
    }
    fn list_dir(&self, path: &Path) -> io::Result<Vec<PathBuf>> {
        self.inner.list_dir(path)
    }
    fn open_file(&self, path: &Path) -> io::Result<Box<dyn ReadonlyRandomAccessFile>> {
        self.inner.open_file(path)
    }
    fn rename(&self, from: &Path, to: &Path) -> io::Result<()> {
        self.inner.rename(from, to)
    }
    fn create_file(&self, path: &Path, append: bool) -> io::Result<Box<dyn RandomAccessFile>> {
        if has_extension(path, "log") {
            self.wals_created.fetch_add(1, Ordering::SeqCst);
        }
        if self.armed.load(Ordering::SeqCst)
            && has_extension(path, "rdb")
            && !self.fired.swap(true, Ordering::SeqCst)
        {
            // The compaction thread is opening its first output file. Park it.
            self.reached_tx
                .lock()
                .unwrap()
                .send(path.to_path_buf())
                .unwrap();
            let _ = self
                .resume_rx
                .lock()
                .unwrap()
                .recv_timeout(Duration::from_secs(30));
        }
        self.inner.create_file(path, append)
    }
    fn remove_file(&self, path: &Path) -> io::Result<()> {
        self.inner.remove_file(path)
    }
    fn remove_dir(&self, path: &Path) -> io::Result<()> {
        self.inner.remove_dir(path)
    }
    fn remove_dir_all(&self, path: &Path) -> io::Result<()> {
        self.inner.remove_dir_all(path)
    }
    fn get_file_size(&self, path: &Path) -> io::Result<u64> {
        self.inner.get_file_size(path)
    }
    fn is_dir(&self, path: &Path) -> io::Result<bool> {
        self.inner.is_dir(path)
    }
    fn lock_file(&self, path: &Path) -> io::Result<FileLock> {
        self.inner.lock_file(path)
    }
}

fn options(fs: &Arc<HookFs>) -> DbOptions {
    let fs_for_db: Arc<dyn FileSystem> = fs.clone();
    DbOptions {
        db_path: DB_PATH.to_string(),
        filesystem_provider: fs_for_db,
        create_if_missing: true,
        reuse_log_files: false,
        max_memtable_size: 32 * 1024,
        ..DbOptions::default()
    }
}

fn summary(db: &DB) -> String {
    db.get_descriptor(DatabaseDescriptor::SSTables).unwrap()
}

fn files_per_level(db: &DB) -> Vec<usize> {
    (0..7)
        .map(|level| {
            db.get_descriptor(DatabaseDescriptor::NumFilesAtLevel(level))
                .unwrap()
                .parse::<usize>()
                .unwrap()
        })
        .collect()
}

fn put(db: &DB, key: &str, value: Vec<u8>) {
    db.put(WriteOptions::default(), key.as_bytes().to_vec(), value)
        .unwrap();
}

#[test]
fn probe_flush_into_the_gap_of_a_running_multi_file_compaction() {
    let (reached_tx, reached_rx) = mpsc::channel();
    let (resume_tx, resume_rx) = mpsc::channel();
    let fs = Arc::new(HookFs {
        inner: InMemoryFileSystem::new(),
        armed: AtomicBool::new(false),
        fired: AtomicBool::new(false),
        wals_created: AtomicUsize::new(0),
        reached_tx: Mutex::new(reached_tx),
        resume_rx: Mutex::new(resume_rx),
    });

    // Session 1: leave `a*` keys in the WAL only.
    {
        let db = DB::open(options(&fs)).unwrap();
        for idx in 0..5 {
            put(&db, &format!("a{idx}"), b"va".to_vec());
        }
    }
    // Session 2: recovery turns the WAL into a level-0 file; move it to level 1.
    {
        let db = DB::open(options(&fs)).unwrap();
        println!("after recovery #1: {:?}", files_per_level(&db));
        db.compact_range(Some(b"a".as_slice())..Some(b"b".as_slice()));
        println!("after compacting a..b: {:?}", files_per_level(&db));
        for idx in 0..5 {
            put(&db, &format!("x{idx}"), b"vx".to_vec());
        }
    }
    // Session 3: same for the `x*` keys, then put something into level 2 that is outside of the
    // gap so that `compact_range` also compacts level 1.
    let db = Arc::new(DB::open(options(&fs)).unwrap());
    println!("after recovery #2: {:?}", files_per_level(&db));
    db.compact_range(Some(b"x".as_slice())..Some(b"y".as_slice()));
    println!("after compacting x..y: {:?}", files_per_level(&db));
    put(&db, "z5", b"vz".to_vec());
    put(&db, "z6", b"vz".to_vec());
    db.compact_range(Some(b"~1".as_slice())..Some(b"~2".as_slice()));
    println!("layout before the probe: {:?}\n{}", files_per_level(&db), summary(&db));

    fs.armed.store(true, Ordering::SeqCst);
    let compacting_db = Arc::clone(&db);
    let (done_tx, done_rx) = mpsc::channel();
    thread::spawn(move || {
        compacting_db.compact_range(Some(b"a".as_slice())..Some(b"zz".as_slice()));
        let _ = done_tx.send(());
    });

    let first_output = reached_rx
        .recv_timeout(Duration::from_secs(30))
        .expect("no compaction output was opened");
    println!("compaction parked while opening {first_output:?}");

    let wals_before = fs.wals_created.load(Ordering::SeqCst);
    let mut idx = 0;
    while fs.wals_created.load(Ordering::SeqCst) == wals_before {
        put(&db, &format!("m{idx}"), vec![b'm'; 20 * 1024]);
        idx += 1;
        assert!(idx < 16);
    }
    println!("memtable rotated after {idx} puts");
    resume_tx.send(()).unwrap();

    match done_rx.recv_timeout(Duration::from_secs(20)) {
        Ok(()) => {
            println!("layout after the probe: {:?}\n{}", files_per_level(&db), summary(&db));
            let mut seen = HashSet::new();
            for line in summary(&db).lines().filter(|l| !l.starts_with("---")) {
                assert!(seen.insert(line.split_whitespace().next().unwrap().to_string()));
            }
        }
        Err(_) => {
            println!("layout now: {:?}\n{}", files_per_level(&db), summary(&db));
            std::mem::forget(db);
            panic!("compact_range(a..zz) did not finish within 20 s");
        }
    }
}
