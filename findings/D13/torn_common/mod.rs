//! Test-only scaffolding: a `FileSystem` wrapper around the in-memory file system that can tear
//! the N-th file write (persist only a prefix of it) and then behave like a dead process.

#![allow(dead_code)]

use std::collections::BTreeMap;
use std::io::{self, Read, Seek, SeekFrom, Write};
use std::path::{Path, PathBuf};
use std::sync::{Arc, Mutex};

use raindb::fs::{
    FileLock, FileSystem, InMemoryFileSystem, RandomAccessFile, ReadonlyRandomAccessFile,
};
use raindb::{DbOptions, ReadOptions, WriteOptions, DB};

/// How much of the torn write reaches the disk.
#[derive(Clone, Copy, Debug, PartialEq, Eq)]
pub enum Cut {
    OneByte,
    Half,
    AllButOne,
    Bytes(usize),
}

impl Cut {
    fn len(&self, full: usize) -> usize {
        let n = match self {
            Cut::OneByte => 1,
            Cut::Half => full / 2,
            Cut::AllButOne => full.saturating_sub(1),
            Cut::Bytes(n) => *n,
        };
        n.min(full)
    }
}

#[derive(Debug, Default)]
pub struct CrashState {
    /// Number of file write operations seen so far.
    pub writes_seen: usize,
    /// Tear the write with this (0-based) index.
    pub tear_at: Option<(usize, Cut)>,
    /// Tear the first write to a file whose path contains this string and whose payload contains
    /// these bytes.
    pub tear_matching: Option<(String, Vec<u8>, Cut)>,
    /// Set once the torn write happened. Every later mutation fails.
    pub crashed: bool,
    /// (path, full length, persisted length) of the torn write.
    pub torn: Option<(PathBuf, usize, usize)>,
    /// Log of (path, len) for every write.
    pub log: Vec<(PathBuf, usize)>,
}

pub struct CrashFs {
    inner: Arc<InMemoryFileSystem>,
    pub state: Arc<Mutex<CrashState>>,
}

impl CrashFs {
    pub fn new(inner: Arc<InMemoryFileSystem>) -> Self {
        Self {
            inner,
            state: Arc::new(Mutex::new(CrashState::default())),
        }
    }

    fn dead(&self) -> io::Result<()> {
        if self.state.lock().unwrap().crashed {
            return Err(io::Error::new(io::ErrorKind::Other, "process is dead"));
        }
        Ok(())
    }
}

struct CrashFile {
    path: PathBuf,
    inner: Box<dyn RandomAccessFile>,
    state: Arc<Mutex<CrashState>>,
}

impl CrashFile {
    fn do_write(&mut self, buf: &[u8]) -> io::Result<usize> {
        if buf.is_empty() {
            return Ok(0);
        }
        let mut state = self.state.lock().unwrap();
        if state.crashed {
            return Err(io::Error::new(io::ErrorKind::Other, "process is dead"));
        }
        let idx = state.writes_seen;
        state.writes_seen += 1;
        state.log.push((self.path.clone(), buf.len()));

        let mut cut: Option<Cut> = None;
        if let Some((at, c)) = state.tear_at {
            if at == idx {
                cut = Some(c);
            }
        }
        if let Some((path_part, needle, c)) = state.tear_matching.clone() {
            if self.path.to_string_lossy().contains(&path_part)
                && buf.windows(needle.len()).any(|w| w == needle.as_slice())
            {
                cut = Some(c);
            }
        }

        if let Some(cut) = cut {
            let keep = cut.len(buf.len());
            if keep > 0 {
                self.inner.write_all(&buf[..keep])?;
            }
            state.crashed = true;
            state.torn = Some((self.path.clone(), buf.len(), keep));
            return Err(io::Error::new(io::ErrorKind::Other, "crash during write"));
        }

        self.inner.write_all(buf)?;
        Ok(buf.len())
    }
}

impl Read for CrashFile {
    fn read(&mut self, buf: &mut [u8]) -> io::Result<usize> {
        self.inner.read(buf)
    }
}

impl Seek for CrashFile {
    fn seek(&mut self, pos: SeekFrom) -> io::Result<u64> {
        self.inner.seek(pos)
    }
}

impl Write for CrashFile {
    fn write(&mut self, buf: &[u8]) -> io::Result<usize> {
        self.do_write(buf)
    }

    fn flush(&mut self) -> io::Result<()> {
        self.inner.flush()
    }
}

impl ReadonlyRandomAccessFile for CrashFile {
    fn read_from(&self, buf: &mut [u8], offset: usize) -> io::Result<usize> {
        self.inner.read_from(buf, offset)
    }

    fn len(&self) -> io::Result<u64> {
        self.inner.len()
    }
}

impl RandomAccessFile for CrashFile {
    fn append(&mut self, buf: &[u8]) -> io::Result<usize> {
        self.do_write(buf)
    }
}

impl FileSystem for CrashFs {
    fn get_name(&self) -> String {
        "CrashFs".to_string()
    }

    fn create_dir(&self, path: &Path) -> io::Result<()> {
        self.dead()?;
        self.inner.create_dir(path)
    }

    fn create_dir_all(&self, path: &Path) -> io::Result<()> {
        self.dead()?;
        self.inner.create_dir_all(path)
    }

    fn list_dir(&self, path: &Path) -> io::Result<Vec<PathBuf>> {
        self.inner.list_dir(path)
    }

    fn open_file(&self, path: &Path) -> io::Result<Box<dyn ReadonlyRandomAccessFile>> {
        self.inner.open_file(path)
    }

    fn rename(&self, from: &Path, to: &Path) -> io::Result<()> {
        self.dead()?;
        self.inner.rename(from, to)
    }

    fn create_file(&self, path: &Path, append: bool) -> io::Result<Box<dyn RandomAccessFile>> {
        self.dead()?;
        let inner = self.inner.create_file(path, append)?;
        Ok(Box::new(CrashFile {
            path: path.to_path_buf(),
            inner,
            state: Arc::clone(&self.state),
        }))
    }

    fn remove_file(&self, path: &Path) -> io::Result<()> {
        self.dead()?;
        self.inner.remove_file(path)
    }

    fn remove_dir(&self, path: &Path) -> io::Result<()> {
        self.dead()?;
        self.inner.remove_dir(path)
    }

    fn remove_dir_all(&self, path: &Path) -> io::Result<()> {
        self.dead()?;
        self.inner.remove_dir_all(path)
    }

    fn get_file_size(&self, path: &Path) -> io::Result<u64> {
        self.inner.get_file_size(path)
    }

    fn is_dir(&self, path: &Path) -> io::Result<bool> {
        self.inner.is_dir(path)
    }

    fn lock_file(&self, path: &Path) -> io::Result<FileLock> {
        self.inner.lock_file(path)
    }
}

pub const DB_PATH: &str = "/torn_db";

pub fn options(fs: Arc<dyn FileSystem>, reuse_log_files: bool, max_memtable_size: usize) -> DbOptions {
    DbOptions {
        db_path: DB_PATH.to_string(),
        filesystem_provider: fs,
        create_if_missing: true,
        reuse_log_files,
        max_memtable_size,
        ..DbOptions::default()
    }
}

pub type Model = BTreeMap<Vec<u8>, Option<Vec<u8>>>;

/// One step of a workload.
#[derive(Clone, Debug)]
pub enum Step {
    Put(Vec<u8>, Vec<u8>),
    Delete(Vec<u8>),
    /// Drop the database handle and open it again (clean reopen).
    Reopen,
}

pub fn read_key(db: &DB, key: &[u8]) -> Option<Vec<u8>> {
    match db.get(ReadOptions::default(), key) {
        Ok(v) => Some(v),
        Err(raindb::RainDBError::KeyNotFound) => None,
        Err(e) => panic!("unexpected read error for key {:?}: {e}", String::from_utf8_lossy(key)),
    }
}

/// Check that every key of the model reads back with the modelled value. `uncertain` lists the
/// keys of an unacknowledged write; for those either the modelled or the attempted value is fine.
pub fn check_model(
    db: &DB,
    model: &Model,
    uncertain: &BTreeMap<Vec<u8>, Option<Vec<u8>>>,
    context: &str,
) -> Result<(), String> {
    for (key, expected) in model.iter() {
        let actual = read_key(db, key);
        if &actual == expected {
            continue;
        }
        if let Some(attempted) = uncertain.get(key) {
            if &actual == attempted {
                continue;
            }
        }
        return Err(format!(
            "{context}: key {:?} expected {:?} but read {:?}",
            String::from_utf8_lossy(key),
            expected.as_ref().map(|v| v.len()),
            actual.as_ref().map(|v| v.len()),
        ));
    }
    for (key, attempted) in uncertain.iter() {
        if model.contains_key(key) {
            continue;
        }
        let actual = read_key(db, key);
        if actual.is_some() && &actual != attempted {
            return Err(format!(
                "{context}: unacknowledged key {:?} has a value that was never written",
                String::from_utf8_lossy(key)
            ));
        }
    }
    Ok(())
}

/// Outcome of a crash scenario.
#[derive(Debug)]
pub struct ScenarioReport {
    pub crashed: bool,
    pub torn: Option<(PathBuf, usize, usize)>,
    pub writes_seen: usize,
    /// (path, length) of every file write of the crashing phase, in order.
    pub write_log: Vec<(PathBuf, usize)>,
}

/**
Run `workload` on a fresh database with the write with index `tear_at` torn at `cut`. Then recover,
check, apply `post_recovery` writes, cleanly reopen and check again.
*/
pub fn run_scenario(
    workload: &[Step],
    post_recovery: &[Step],
    tear_at: Option<(usize, Cut)>,
    reuse_log_files: bool,
    max_memtable_size: usize,
) -> Result<ScenarioReport, String> {
    run_scenario_ex(
        workload,
        post_recovery,
        tear_at,
        reuse_log_files,
        max_memtable_size,
        true,
    )
}

/// Same as [`run_scenario`]. With `check_post_recovery` false the scenario stops after the
/// recovery check (the database opens and holds everything acknowledged before the crash).
pub fn run_scenario_ex(
    workload: &[Step],
    post_recovery: &[Step],
    tear_at: Option<(usize, Cut)>,
    reuse_log_files: bool,
    max_memtable_size: usize,
    check_post_recovery: bool,
) -> Result<ScenarioReport, String> {
    let mem = Arc::new(InMemoryFileSystem::new());
    let crash_fs = Arc::new(CrashFs::new(Arc::clone(&mem)));
    crash_fs.state.lock().unwrap().tear_at = tear_at;
    let state = Arc::clone(&crash_fs.state);

    let mut model: Model = BTreeMap::new();
    let mut uncertain: BTreeMap<Vec<u8>, Option<Vec<u8>>> = BTreeMap::new();

    // Phase 1: run the workload until the crash
    {
        let fs: Arc<dyn FileSystem> = crash_fs.clone();
        let mut maybe_db = match DB::open(options(Arc::clone(&fs), reuse_log_files, max_memtable_size)) {
            Ok(db) => Some(db),
            Err(e) => {
                if !state.lock().unwrap().crashed {
                    return Err(format!("initial open failed without a crash: {e}"));
                }
                None
            }
        };

        for step in workload {
            if state.lock().unwrap().crashed || maybe_db.is_none() {
                break;
            }
            match step {
                Step::Put(k, v) => {
                    let res = maybe_db.as_ref().unwrap().put(
                        WriteOptions::default(),
                        k.clone(),
                        v.clone(),
                    );
                    match res {
                        Ok(()) => {
                            model.insert(k.clone(), Some(v.clone()));
                        }
                        Err(e) => {
                            if !state.lock().unwrap().crashed {
                                return Err(format!("put failed without a crash: {e}"));
                            }
                            uncertain.insert(k.clone(), Some(v.clone()));
                        }
                    }
                }
                Step::Delete(k) => {
                    let res = maybe_db
                        .as_ref()
                        .unwrap()
                        .delete(WriteOptions::default(), k.clone());
                    match res {
                        Ok(()) => {
                            model.insert(k.clone(), None);
                        }
                        Err(e) => {
                            if !state.lock().unwrap().crashed {
                                return Err(format!("delete failed without a crash: {e}"));
                            }
                            uncertain.insert(k.clone(), None);
                        }
                    }
                }
                Step::Reopen => {
                    drop(maybe_db.take());
                    match DB::open(options(Arc::clone(&fs), reuse_log_files, max_memtable_size)) {
                        Ok(db) => maybe_db = Some(db),
                        Err(e) => {
                            if !state.lock().unwrap().crashed {
                                return Err(format!("reopen failed without a crash: {e}"));
                            }
                        }
                    }
                }
            }
        }
        drop(maybe_db);
    }

    let report = {
        let s = state.lock().unwrap();
        ScenarioReport {
            crashed: s.crashed,
            torn: s.torn.clone(),
            writes_seen: s.writes_seen,
            write_log: s.log.clone(),
        }
    };

    // Phase 2: recovery on the raw file system
    let fs: Arc<dyn FileSystem> = mem.clone();
    let db = DB::open(options(Arc::clone(&fs), reuse_log_files, max_memtable_size))
        .map_err(|e| format!("recovery open failed: {e} (torn: {:?})", report.torn))?;
    check_model(&db, &model, &uncertain, "after recovery")
        .map_err(|e| format!("{e} (torn: {:?})", report.torn))?;

    if !check_post_recovery {
        return Ok(report);
    }

    // Whatever the uncertain write turned into is now settled.
    for (k, _) in uncertain.iter() {
        let actual = read_key(&db, k);
        model.insert(k.clone(), actual);
    }
    let uncertain = BTreeMap::new();

    // Phase 3: further acknowledged writes
    let mut db = db;
    for step in post_recovery {
        match step {
            Step::Put(k, v) => {
                db.put(WriteOptions::default(), k.clone(), v.clone())
                    .map_err(|e| format!("post-recovery put failed: {e}"))?;
                model.insert(k.clone(), Some(v.clone()));
            }
            Step::Delete(k) => {
                db.delete(WriteOptions::default(), k.clone())
                    .map_err(|e| format!("post-recovery delete failed: {e}"))?;
                model.insert(k.clone(), None);
            }
            Step::Reopen => {
                drop(db);
                db = DB::open(options(Arc::clone(&fs), reuse_log_files, max_memtable_size))
                    .map_err(|e| format!("post-recovery reopen failed: {e}"))?;
            }
        }
    }
    check_model(&db, &model, &uncertain, "after post-recovery writes")
        .map_err(|e| format!("{e} (torn: {:?})", report.torn))?;
    drop(db);

    // Phase 4: clean reopen
    let db = DB::open(options(Arc::clone(&fs), reuse_log_files, max_memtable_size))
        .map_err(|e| format!("final reopen failed: {e} (torn: {:?})", report.torn))?;
    check_model(&db, &model, &uncertain, "after final clean reopen")
        .map_err(|e| format!("{e} (torn: {:?})", report.torn))?;
    drop(db);

    Ok(report)
}

pub fn key(i: usize) -> Vec<u8> {
    format!("key{i:05}").into_bytes()
}

pub fn value(tag: &str, i: usize, len: usize) -> Vec<u8> {
    let mut v = format!("{tag}-{i}-").into_bytes();
    while v.len() < len {
        v.push(b'a' + ((v.len() + i) % 26) as u8);
    }
    v
}
