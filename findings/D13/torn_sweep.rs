mod torn_common;

use torn_common::*;

fn workload() -> Vec<Step> {
    let mut steps = vec![];
    for i in 0..4 {
        steps.push(Step::Put(key(i), value("a", i, 40)));
    }
    steps.push(Step::Put(key(100), value("big", 100, 40_000)));
    steps.push(Step::Delete(key(1)));
    steps.push(Step::Reopen);
    for i in 4..8 {
        steps.push(Step::Put(key(i), value("b", i, 3000)));
    }
    steps.push(Step::Put(key(101), value("big", 101, 70_000)));
    steps.push(Step::Reopen);
    for i in 8..12 {
        steps.push(Step::Put(key(i), value("c", i, 20_000)));
    }
    steps.push(Step::Delete(key(5)));
    steps
}

fn post() -> Vec<Step> {
    let mut steps = vec![];
    for i in 0..3 {
        steps.push(Step::Put(key(200 + i), value("p", i, 50)));
    }
    steps.push(Step::Put(key(2), value("p2", 2, 50)));
    steps.push(Step::Delete(key(3)));
    steps.push(Step::Put(key(300), value("pbig", 300, 35_000)));
    steps
}

#[test]
fn sweep() {
    let mut failures = 0;
    for &memtable in &[4 * 1024 * 1024usize, 64 * 1024] {
        for &reuse in &[true, false] {
            let baseline = run_scenario(&workload(), &post(), None, reuse, memtable).unwrap();
            println!(
                "memtable={memtable} reuse={reuse}: {} writes in workload",
                baseline.writes_seen
            );
            for idx in 0..baseline.writes_seen {
                let mut line = format!("m={memtable} reuse={reuse} idx={idx}");
                for cut in [Cut::OneByte, Cut::Half, Cut::AllButOne] {
                    match run_scenario(&workload(), &post(), Some((idx, cut)), reuse, memtable) {
                        Ok(r) => {
                            let t = r.torn.unwrap();
                            line += &format!(" | ok {} {}/{}", t.0.display(), t.2, t.1);
                        }
                        Err(e) => {
                            failures += 1;
                            line += &format!(" | FAIL {e}");
                        }
                    }
                }
                println!("{line}");
            }
        }
    }
    assert!(failures == 0, "{} failures", failures);
}
