//! C15 baseline observation (UNMODIFIED tree): the record type byte of a log record is not
//! covered by the record checksum, so flipping a single bit of it in the MANIFEST makes recovery
//! silently drop a version edit.
//!
//! A physical log record is `checksum (4) | length (2) | type (1) | data`. The checksum is
//! computed over `data` only (LevelDB computes it over `type | data`). A `Full` (0) record whose
//! type byte is turned into `Middle` (2) or `Last` (3) is a fragment "without the start of its
//! record" for the reader and is dropped without an error, even in the mode that is used for
//! manifests (`report_damaged_records`), because its checksum still matches.

use std::io::{Read, Write};
use std::path::{Path, PathBuf};
use std::sync::Arc;

use raindb::fs::{FileSystem, InMemoryFileSystem};
use raindb::{DbOptions, RainDBError, ReadOptions, WriteOptions, DB};

const DB_PATH: &str = "c15_baseline";
const LOG_BLOCK_SIZE: usize = 32 * 1024;
const LOG_HEADER_SIZE: usize = 7;

fn options(fs: &Arc<InMemoryFileSystem>) -> DbOptions {
    let filesystem_provider: Arc<dyn FileSystem> = fs.clone();
    DbOptions {
        db_path: DB_PATH.to_string(),
        filesystem_provider,
        create_if_missing: true,
        ..DbOptions::default()
    }
}

fn read_whole_file(fs: &dyn FileSystem, path: &Path) -> Vec<u8> {
    let mut file = fs.open_file(path).unwrap();
    let mut contents = vec![];
    file.read_to_end(&mut contents).unwrap();
    contents
}

fn overwrite_file(fs: &dyn FileSystem, path: &Path, contents: &[u8]) {
    let mut file = fs.create_file(path, false).unwrap();
    file.write_all(contents).unwrap();
    file.flush().unwrap();
}

fn manifest_file(fs: &dyn FileSystem) -> PathBuf {
    let current = read_whole_file(fs, &Path::new(DB_PATH).join("CURRENT"));
    let name = String::from_utf8(current).unwrap();
    let candidate = Path::new(DB_PATH).join(name.trim());
    if fs.open_file(&candidate).is_ok() {
        return candidate;
    }

    // Fall back to looking for the (only) manifest file
    let mut manifests: Vec<PathBuf> = fs
        .list_dir(Path::new(DB_PATH))
        .unwrap()
        .into_iter()
        .filter(|path| path.extension().map_or(false, |ext| ext == "manifest"))
        .collect();
    assert_eq!(manifests.len(), 1, "CURRENT contained {name:?}");
    manifests.pop().unwrap()
}

/// Offsets of the headers of the physical records of a log file together with their payloads.
fn physical_records(log: &[u8]) -> Vec<(usize, Vec<u8>)> {
    let mut records = vec![];
    let mut cursor = 0;
    while cursor + LOG_HEADER_SIZE <= log.len() {
        let left_in_block = LOG_BLOCK_SIZE - (cursor % LOG_BLOCK_SIZE);
        if left_in_block < LOG_HEADER_SIZE {
            cursor += left_in_block;
            continue;
        }
        let length = u16::from_le_bytes([log[cursor + 4], log[cursor + 5]]) as usize;
        let payload = log[cursor + LOG_HEADER_SIZE..cursor + LOG_HEADER_SIZE + length].to_vec();
        records.push((cursor, payload));
        cursor += LOG_HEADER_SIZE + length;
    }

    records
}

fn contains(haystack: &[u8], needle: &[u8]) -> bool {
    haystack.windows(needle.len()).any(|window| window == needle)
}

#[test]
fn flipped_record_type_bit_in_the_manifest_is_detected() {
    let fs = Arc::new(InMemoryFileSystem::new());

    {
        let db = DB::open(options(&fs)).unwrap();
        db.put(WriteOptions::default(), b"apple".to_vec(), b"red".to_vec())
            .unwrap();
        // Flush the memtable to a table file. This writes a version edit to the manifest.
        db.compact_range(None..None);
        assert_eq!(
            db.get(ReadOptions::default(), b"apple").unwrap(),
            b"red".to_vec()
        );
    }

    let manifest_path = manifest_file(&*fs);
    let mut manifest = read_whole_file(&*fs, &manifest_path);
    let records = physical_records(&manifest);
    // The version edit that added the table file mentions the smallest/largest key of the file
    let (edit_offset, _) = records
        .iter()
        .rev()
        .find(|(_, payload)| contains(payload, b"apple"))
        .expect("expected a version edit that adds the flushed table file");
    let type_offset = edit_offset + 6;
    assert_eq!(manifest[type_offset], 0, "expected a `Full` record");
    // Full (0) -> Middle (2): a single flipped bit
    manifest[type_offset] ^= 0b10;
    overwrite_file(&*fs, &manifest_path, &manifest);

    let db = match DB::open(options(&fs)) {
        Ok(db) => db,
        // Refusing to open a database with a damaged manifest is the expected outcome
        Err(_) => return,
    };

    match db.get(ReadOptions::default(), b"apple") {
        Ok(value) => assert_eq!(value, b"red".to_vec()),
        Err(RainDBError::KeyNotFound) => panic!(
            "the database opened without any error after one bit of the manifest was flipped \
            and the flushed key `apple` silently disappeared. Files left in the data directory: \
            {:?}",
            fs.list_dir(&Path::new(DB_PATH).join("data")).unwrap()
        ),
        Err(_detected) => {}
    }
}
