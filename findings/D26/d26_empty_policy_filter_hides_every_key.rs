//! Baseline observation for C14 (fails on the UNMODIFIED tree): a user supplied filter policy
//! whose `create_filter` returns a zero-length filter for a non-empty key set (e.g. a pass-through
//! policy used to switch filtering off) hides every key of the table, because
//! `FilterBlockReader::key_may_match` treats a zero-length filter as "matches nothing" without
//! asking the policy.

use std::sync::Arc;

use raindb::filter_policy::FilterPolicyError;
use raindb::fs::{FileSystem, InMemoryFileSystem};
use raindb::{DbOptions, FilterPolicy, ReadOptions, WriteOptions, DB};

/// A policy that never filters anything out.
#[derive(Debug)]
struct PassThroughPolicy;

impl FilterPolicy for PassThroughPolicy {
    fn get_name(&self) -> String {
        "c14demo.PassThrough".to_string()
    }

    fn create_filter(&self, _keys: &[Vec<u8>]) -> Vec<u8> {
        vec![]
    }

    fn key_may_match(&self, _key: &[u8], _filter: &[u8]) -> Result<bool, FilterPolicyError> {
        Ok(true)
    }
}

#[test]
fn a_policy_with_zero_length_filters_does_not_hide_stored_keys() {
    let mem_fs: Arc<dyn FileSystem> = Arc::new(InMemoryFileSystem::new());
    let db = DB::open(DbOptions {
        db_path: "c14_baseline".to_string(),
        filesystem_provider: mem_fs,
        filter_policy: Arc::new(PassThroughPolicy),
        create_if_missing: true,
        ..DbOptions::default()
    })
    .unwrap();

    db.put(WriteOptions::default(), b"hello".to_vec(), b"world".to_vec())
        .unwrap();
    assert_eq!(
        db.get(ReadOptions::default(), b"hello").unwrap(),
        b"world".to_vec()
    );

    // Move the entry from the memtable to a table file
    db.compact_range(None..None);

    assert_eq!(
        db.get(ReadOptions::default(), b"hello").unwrap(),
        b"world".to_vec(),
        "The key is in the table but the lookup was cut short by the (zero-length) filter."
    );
}
