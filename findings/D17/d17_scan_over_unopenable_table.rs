//! D17: a table below level 0 whose footer is damaged. A scan must fail or report what was written; before the
//! repair (b1a4610) it silently dropped the table from the merge and resurrected the entries it shadows.
//!
//! Run: copy to <raindb>/tests/ and `cargo test --offline --test d17_scan_over_unopenable_table -- --nocapture`.
//! On ff1953b: "scan succeeded with [("doomed", "old"), ("kept", "old"), ("other", "same")]" and the test fails.
//! On b1a4610: "scan failed as it should: The magic number was incorrect. This is not a table file."
use std::io::{Read, Write};
use std::path::PathBuf;
use std::sync::Arc;

use raindb::db::DatabaseDescriptor;
use raindb::fs::{FileSystem, InMemoryFileSystem};
use raindb::{DbOptions, RainDbIterator, ReadOptions, WriteOptions, DB};

const DB_PATH: &str = "/d17-demo";

fn options(fs: &Arc<dyn FileSystem>) -> DbOptions {
    DbOptions {
        db_path: DB_PATH.to_string(),
        filesystem_provider: Arc::clone(fs),
        create_if_missing: true,
        max_memtable_size: 8 * 1024,
        ..DbOptions::default()
    }
}

fn table_files(fs: &Arc<dyn FileSystem>) -> Vec<(u64, PathBuf)> {
    let data_dir = PathBuf::from(DB_PATH).join("data");
    let mut tables: Vec<(u64, PathBuf)> = fs
        .list_dir(&data_dir)
        .unwrap()
        .into_iter()
        .filter(|path| path.extension().map_or(false, |ext| ext == "rdb"))
        .map(|path| {
            let number = path.file_stem().unwrap().to_str().unwrap().parse::<u64>().unwrap();
            (number, path)
        })
        .collect();
    tables.sort();
    tables
}

fn levels(db: &DB) -> Vec<String> {
    (0..4)
        .map(|level| db.get_descriptor(DatabaseDescriptor::NumFilesAtLevel(level)).unwrap())
        .collect()
}

#[test]
fn scan_does_not_resurrect_entries_when_a_level1_table_footer_is_damaged() {
    let fs: Arc<dyn FileSystem> = Arc::new(InMemoryFileSystem::new());
    {
        let db = DB::open(options(&fs)).unwrap();
        db.put(WriteOptions::default(), "doomed".into(), "old".into()).unwrap();
        db.put(WriteOptions::default(), "kept".into(), "old".into()).unwrap();
        db.put(WriteOptions::default(), "other".into(), "same".into()).unwrap();
        // flushes the memtable; nothing overlaps so the table is placed at level 2
        db.compact_range(None..None);
        println!("levels after the first flush: {:?}", levels(&db));

        db.delete(WriteOptions::default(), "doomed".into()).unwrap();
        db.put(WriteOptions::default(), "kept".into(), "new".into()).unwrap();
        // fill the memtable so that it is flushed by the background thread: the new table overlaps the
        // level-2 table and is therefore placed at level 1
        let mut index = 0;
        while levels(&db)[1] == "0" && index < 400 {
            db.put(WriteOptions::default(), format!("filler-{index:04}").into_bytes(), vec![b'x'; 400]).unwrap();
            index += 1;
            if index % 10 == 0 {
                std::thread::sleep(std::time::Duration::from_millis(20));
            }
        }
        std::thread::sleep(std::time::Duration::from_millis(300));
        println!("levels after the second flush ({index} fillers): {:?}", levels(&db));
        assert_eq!(db.get(ReadOptions::default(), b"kept").unwrap(), b"new".to_vec());
        assert!(db.get(ReadOptions::default(), b"doomed").is_err());
    }

    let tables = table_files(&fs);
    println!("tables: {tables:?}");
    // the second table written is the level-1 table holding the tombstone and the overwrite
    let (number, path) = tables[1].clone();
    let mut contents = vec![];
    fs.open_file(&path).unwrap().read_to_end(&mut contents).unwrap();
    let offset = contents.len() - 8;
    contents[offset] ^= 0x01;
    let mut file = fs.create_file(&path, false).unwrap();
    file.write_all(&contents).unwrap();
    file.flush().unwrap();
    println!("flipped one bit at offset {offset} of table {number}");

    let db = DB::open(options(&fs)).unwrap();
    println!("levels after reopen: {:?}", levels(&db));
    println!("get(kept) = {:?}", db.get(ReadOptions::default(), b"kept"));

    let mut scanned: Vec<(Vec<u8>, Vec<u8>)> = vec![];
    let scan_result = db.new_iterator(ReadOptions::default()).and_then(|mut iter| {
        iter.seek_to_first()?;
        while iter.is_valid() {
            let (key, value) = iter.current().unwrap();
            if !key.starts_with(b"filler") {
                scanned.push((key.clone(), value.clone()));
            }
            iter.next();
        }
        Ok(())
    });
    match scan_result {
        Err(error) => println!("scan failed as it should: {error}"),
        Ok(()) => {
            println!(
                "scan succeeded with {:?}",
                scanned
                    .iter()
                    .map(|(k, v)| (String::from_utf8_lossy(k).to_string(), String::from_utf8_lossy(v).to_string()))
                    .collect::<Vec<_>>()
            );
            for (key, value) in &scanned {
                assert!(
                    key.as_slice() != b"doomed",
                    "the scan resurrected the deleted key `doomed` with value {:?}",
                    String::from_utf8_lossy(value)
                );
                if key.as_slice() == b"kept" {
                    assert_eq!(value.as_slice(), b"new", "the scan served the overwritten value of `kept`");
                }
            }
        }
    }
}
