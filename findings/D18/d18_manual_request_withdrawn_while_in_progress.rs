//! D18: `force_level_compaction` withdraws its manual-compaction request as soon as a background error shows up, even
//! while the compaction thread is still working on that very request. The thread's final
//! `maybe_manual_compaction.take().unwrap()` then panics, `background_compaction_scheduled` stays set and closing the
//! database hangs.
//!
//! The file-system wrapper is a scheduling / fault hook only: it parks the compaction thread when it creates the
//! output table of the manual compaction, fails the table of the flush that runs inside that compaction, and parks
//! the thread once more so that the requesting thread gets the time to react to the error.
use std::path::{Path, PathBuf};
use std::sync::atomic::{AtomicUsize, Ordering};
use std::sync::{mpsc, Arc, Condvar, Mutex};
use std::thread;
use std::time::Duration;

use raindb::fs::{FileLock, FileSystem, InMemoryFileSystem, RandomAccessFile, ReadonlyRandomAccessFile};
use raindb::{DbOptions, WriteOptions, DB};

const DB_PATH: &str = "/d18_demo";

#[derive(Default)]
struct Gate {
    state: Mutex<(bool, bool)>, // (reached, released)
    signal: Condvar,
}

impl Gate {
    fn park(&self) {
        let mut state = self.state.lock().unwrap();
        state.0 = true;
        self.signal.notify_all();
        while !state.1 {
            state = self.signal.wait(state).unwrap();
        }
    }
    fn wait_reached(&self) {
        let mut state = self.state.lock().unwrap();
        while !state.0 {
            state = self.signal.wait(state).unwrap();
        }
    }
    fn release(&self) {
        self.state.lock().unwrap().1 = true;
        self.signal.notify_all();
    }
}

struct HookFs {
    inner: InMemoryFileSystem,
    /// 0 = hooks off, 1 = park at the next table (then 2), 2 = fail the next table (then 3), 3 = park at the next table (then 4)
    stage: AtomicUsize,
    first: Gate,
    second: Gate,
}

impl FileSystem for HookFs {
    fn get_name(&self) -> String {
        "HookFs".to_string()
    }
    fn create_dir(&self, path: &Path) -> std::io::Result<()> {
        self.inner.create_dir(path)
    }
    fn create_dir_all(&self, path: &Path) -> std::io::Result<()> {
        self.inner.create_dir_all(path)
    }
    fn list_dir(&self, path: &Path) -> std::io::Result<Vec<PathBuf>> {
        self.inner.list_dir(path)
    }
    fn open_file(&self, path: &Path) -> std::io::Result<Box<dyn ReadonlyRandomAccessFile>> {
        self.inner.open_file(path)
    }
    fn rename(&self, from: &Path, to: &Path) -> std::io::Result<()> {
        self.inner.rename(from, to)
    }
    fn create_file(&self, path: &Path, append: bool) -> std::io::Result<Box<dyn RandomAccessFile>> {
        let is_table = path.extension().map_or(false, |ext| ext == "rdb");
        let on_compaction_thread = thread::current().name().map_or(false, |name| name.starts_with("raindb-"));
        if is_table && on_compaction_thread {
            match self.stage.load(Ordering::SeqCst) {
                1 => {
                    self.stage.store(2, Ordering::SeqCst);
                    self.first.park();
                }
                2 => {
                    self.stage.store(3, Ordering::SeqCst);
                    return Err(std::io::Error::new(std::io::ErrorKind::Other, "injected fault: table of the flush"));
                }
                3 => {
                    self.stage.store(4, Ordering::SeqCst);
                    self.second.park();
                }
                _ => {}
            }
        }
        self.inner.create_file(path, append)
    }
    fn remove_file(&self, path: &Path) -> std::io::Result<()> {
        self.inner.remove_file(path)
    }
    fn remove_dir(&self, path: &Path) -> std::io::Result<()> {
        self.inner.remove_dir(path)
    }
    fn remove_dir_all(&self, path: &Path) -> std::io::Result<()> {
        self.inner.remove_dir_all(path)
    }
    fn get_file_size(&self, path: &Path) -> std::io::Result<u64> {
        self.inner.get_file_size(path)
    }
    fn is_dir(&self, path: &Path) -> std::io::Result<bool> {
        self.inner.is_dir(path)
    }
    fn lock_file(&self, path: &Path) -> std::io::Result<FileLock> {
        self.inner.lock_file(path)
    }
}

fn options(fs: &Arc<dyn FileSystem>) -> DbOptions {
    DbOptions {
        db_path: DB_PATH.to_string(),
        filesystem_provider: Arc::clone(fs),
        create_if_missing: true,
        reuse_log_files: false,
        max_memtable_size: 16 * 1024,
        ..DbOptions::default()
    }
}

#[test]
fn closing_the_database_after_a_failed_flush_inside_a_manual_compaction_does_not_hang() {
    let hook = Arc::new(HookFs {
        inner: InMemoryFileSystem::new(),
        stage: AtomicUsize::new(0),
        first: Gate::default(),
        second: Gate::default(),
    });
    let fs: Arc<dyn FileSystem> = hook.clone();

    {
        let db = DB::open(options(&fs)).unwrap();
        for index in 0..40 {
            db.put(WriteOptions::default(), format!("key-{index:03}").into_bytes(), vec![b'v'; 100]).unwrap();
        }
    }
    // the reopen replays the write-ahead log into a level-0 table
    let db = Arc::new(DB::open(options(&fs)).unwrap());

    hook.stage.store(1, Ordering::SeqCst);
    let (sender, receiver) = mpsc::channel();
    let requester = {
        let db = Arc::clone(&db);
        thread::spawn(move || {
            db.compact_range(None..None);
            sender.send(()).unwrap();
        })
    };
    // the compaction thread is about to create the output table of the manual compaction
    hook.first.wait_reached();
    // rotate the memtable so that the compaction flushes it in its merge loop (that flush will fail)
    for index in 0..18 {
        db.put(WriteOptions::default(), format!("zzz-{index:03}").into_bytes(), vec![b'w'; 1000]).unwrap();
    }
    hook.first.release();
    // the compaction thread is parked again, after the failed flush has recorded the background error
    hook.second.wait_reached();
    let requester_returned_early = receiver.recv_timeout(Duration::from_secs(3)).is_ok();
    println!("compact_range returned while the compaction thread was still working on its request: {requester_returned_early}");
    hook.second.release();
    if !requester_returned_early {
        receiver.recv_timeout(Duration::from_secs(30)).expect("compact_range never returned");
    }
    requester.join().unwrap();

    let (closed_sender, closed_receiver) = mpsc::channel();
    thread::spawn(move || {
        drop(db);
        closed_sender.send(()).unwrap();
    });
    assert!(
        closed_receiver.recv_timeout(Duration::from_secs(15)).is_ok(),
        "closing the database hangs: the compaction thread died with the compaction still marked as scheduled"
    );
}
