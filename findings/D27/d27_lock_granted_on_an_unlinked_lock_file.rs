//! C17 observation on the UNMODIFIED tree: `destroy_database` unlinks `LOCK` while holding the
//! lock and then releases it. An opener that has already *opened* the `LOCK` file (inode 1) but has
//! not yet called `flock` on it when destroy unlinks + unlocks, goes on to lock inode 1 - a file
//! that no longer has a name. The next opener creates a fresh `LOCK` (inode 2) and locks that one,
//! so two parties hold "the" database lock for the same path at the same time.
//!
//! The racing party here goes through the public `FileSystem::lock_file` of `OsFileSystem`, i.e.
//! exactly the two steps `DB::open` performs (`create_dir_all(db_path)`, `lock_file(db_path/LOCK)`),
//! so that a trial costs microseconds instead of a full `DB::open`.

use std::path::PathBuf;
use std::sync::atomic::{AtomicBool, AtomicUsize, Ordering};
use std::sync::Arc;
use std::thread;
use std::time::{Duration, Instant};

use raindb::fs::{FileSystem, OsFileSystem};
use raindb::{DbOptions, DB};

struct ScratchDir(PathBuf);

impl Drop for ScratchDir {
    fn drop(&mut self) {
        let _ = std::fs::remove_dir_all(&self.0);
    }
}

#[test]
fn c17_obs_lock_acquired_on_unlinked_lock_file_excludes_nobody() {
    let scratch = ScratchDir(std::env::temp_dir().join(format!(
        "raindb_c17_obs_{}_{}",
        std::process::id(),
        std::time::SystemTime::now()
            .duration_since(std::time::UNIX_EPOCH)
            .unwrap()
            .as_nanos()
    )));
    std::fs::create_dir_all(&scratch.0).unwrap();
    let db_path = scratch.0.join("db");
    let lock_path = db_path.join("LOCK");

    let stop = Arc::new(AtomicBool::new(false));
    let double_locks = Arc::new(AtomicUsize::new(0));

    let racer = {
        let stop = Arc::clone(&stop);
        let double_locks = Arc::clone(&double_locks);
        let db_path = db_path.clone();
        let lock_path = lock_path.clone();
        thread::spawn(move || {
            let fs = OsFileSystem::new();
            while !stop.load(Ordering::Relaxed) {
                // First party: what `DB::open` does to become the owner.
                if let Ok(first_lock) = fs.lock_file(&lock_path) {
                    // Second party, while the first one is still the owner.
                    let _ = fs.create_dir_all(&db_path);
                    if let Ok(second_lock) = fs.lock_file(&lock_path) {
                        double_locks.fetch_add(1, Ordering::SeqCst);
                        drop(second_lock);
                    }
                    drop(first_lock);
                }
            }
        })
    };

    let os_fs: Arc<dyn FileSystem> = Arc::new(OsFileSystem::new());
    let deadline = Instant::now() + Duration::from_secs(20);
    let mut trials = 0usize;
    while Instant::now() < deadline && double_locks.load(Ordering::SeqCst) == 0 {
        trials += 1;
        // The minimum that destroy_database needs to walk all the way to the LOCK removal.
        let _ = std::fs::create_dir_all(db_path.join("wal"));
        let _ = std::fs::create_dir_all(db_path.join("data"));
        let _ = DB::destroy_database(DbOptions {
            filesystem_provider: Arc::clone(&os_fs),
            db_path: db_path.to_str().unwrap().to_owned(),
            ..DbOptions::default()
        });
    }

    stop.store(true, Ordering::Relaxed);
    racer.join().unwrap();

    let seen = double_locks.load(Ordering::SeqCst);
    assert_eq!(
        seen, 0,
        "C17 violated on the unmodified tree: after {trials} destroy_database calls, the LOCK of \
         {db_path:?} was held by two parties at once {seen} time(s)"
    );
}
