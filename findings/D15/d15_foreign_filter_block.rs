//! Reproduction for finding D15 (property C14).
//!
//! `Table::read_filter_meta_block` seeks the metaindex block for `filter.<policy name>` and uses whatever entry the
//! seek lands on without comparing its key with the requested name. A table written under one filter policy and read
//! under another policy whose name sorts at or before the writer's is therefore probed with filters the reading policy
//! never produced; the policy answers "no match" and `DB::get` reports a key that is stored in the table as missing.
//!
//! Expected (and after the fix): a filter block written by a different policy is ignored (no filter => "may match").
//!
//! Run: copy into <repo>/tests/ and `cargo test --offline --test d15_foreign_filter_block`.

use std::sync::Arc;

use raindb::filter_policy::{FilterPolicy, FilterPolicyError};
use raindb::fs::{FileSystem, InMemoryFileSystem};
use raindb::{DbOptions, ReadOptions, WriteOptions, DB};

/// An exact-membership policy: the filter is a marker followed by the length-prefixed keys.
#[derive(Debug)]
struct ExactSetPolicy;

const MARKER: &[u8] = b"EXACT";

impl FilterPolicy for ExactSetPolicy {
    fn get_name(&self) -> String {
        // Sorts before "RainDB.BloomFilter"
        "Exact.SetFilter".to_string()
    }

    fn create_filter(&self, keys: &[Vec<u8>]) -> Vec<u8> {
        let mut out = MARKER.to_vec();
        for key in keys {
            out.extend_from_slice(&(key.len() as u32).to_le_bytes());
            out.extend_from_slice(key);
        }
        out
    }

    fn key_may_match(&self, key: &[u8], filter: &[u8]) -> Result<bool, FilterPolicyError> {
        if !filter.starts_with(MARKER) {
            // Every filter this policy creates starts with the marker: nothing was added to this one.
            return Ok(false);
        }
        let mut rest = &filter[MARKER.len()..];
        while rest.len() >= 4 {
            let len = u32::from_le_bytes([rest[0], rest[1], rest[2], rest[3]]) as usize;
            if rest.len() < 4 + len {
                break;
            }
            if &rest[4..4 + len] == key {
                return Ok(true);
            }
            rest = &rest[4 + len..];
        }
        Ok(false)
    }
}

fn options(fs: &Arc<dyn FileSystem>) -> DbOptions {
    DbOptions {
        filesystem_provider: Arc::clone(fs),
        create_if_missing: true,
        db_path: "d15".to_string(),
        ..DbOptions::default()
    }
}

#[test]
fn a_table_written_under_another_filter_policy_still_returns_its_keys() {
    let fs: Arc<dyn FileSystem> = Arc::new(InMemoryFileSystem::new());
    {
        // Written with the default Bloom filter policy
        let db = DB::open(options(&fs)).unwrap();
        for idx in 0..200_u32 {
            db.put(
                WriteOptions::default(),
                format!("key{idx:04}").into_bytes(),
                format!("value{idx:04}").into_bytes(),
            )
            .unwrap();
        }
        db.compact_range(None..None);
    }

    // Read with a different policy
    let db = DB::open(DbOptions {
        filter_policy: Arc::new(ExactSetPolicy),
        ..options(&fs)
    })
    .unwrap();
    let mut missing = vec![];
    for idx in 0..200_u32 {
        let key = format!("key{idx:04}");
        match db.get(ReadOptions::default(), key.as_bytes()) {
            Ok(value) => assert_eq!(value, format!("value{idx:04}").into_bytes()),
            Err(error) => missing.push(format!("{key}: {error}")),
        }
    }
    assert!(
        missing.is_empty(),
        "{} of 200 stored keys were hidden by a filter block that belongs to another policy, e.g. {}",
        missing.len(),
        missing[0]
    );
}
